"""Scripted peers: the other end of every socketpair (DESIGN.md 2.2 / 2.3).

A peer lives in the same (virtual-time) loop as the library, so its delays are timers on the same clock and
a whole run is one deterministic schedule.  It is keyed by (host, port), survives reconnects, counts the
transmissions it receives and tags everything it sends with the transmission it answers.
"""
from __future__ import annotations

import errno

from . import refcodec as rc
from .vloop import ERR_MARK

# the per-transmission fault alphabet of C04 (symbols may also be tuples with parameters)
ALPHABET = ["drop", "now", "intime", "late", "garbage", "short", "badsum", "exc", "frag2", "frag1", "dup",
            "close", "closelate", "senderr", "senderrlate"]


class PeerBase:
    def __init__(self, owner: str):
        self.owner = owner
        self.loop = None
        self.socks: list = []
        self.bufs: dict = {}
        self.n = 0                       # transmissions received so far
        self.default_hops = 0            # every send is deferred by this many loop iterations (arrival phase)

    def bind(self, loop):
        self.loop = loop

    def attach(self, sock, kind):
        self.socks.append(sock)
        self.bufs[sock.fileno()] = bytearray()
        self.loop.add_reader(sock.fileno(), self._on_read, sock, kind)

    def _drop_sock(self, s):
        try:
            self.loop.remove_reader(s.fileno())
        except Exception:
            pass
        try:
            s.close()
        except Exception:
            pass
        if s in self.socks:
            self.socks.remove(s)

    def close_all(self):
        for s in list(self.socks):
            self._drop_sock(s)

    def _on_read(self, s, kind):
        try:
            d = s.recv(65536)
        except BlockingIOError:
            return
        except OSError:
            self._drop_sock(s)
            return
        if not d:
            self.loop.ev("peer_eof", self.owner)
            self._drop_sock(s)
            return
        if kind == "tcp":
            buf = self.bufs.setdefault(s.fileno(), bytearray())
            buf += d
            frames = list(self.split_stream(buf))
        else:
            frames = [d]
        for fr in frames:
            self.n += 1
            self.on_request(s, kind, fr, self.n)

    def split_stream(self, buf):
        return rc.split_tcp_stream(buf)

    # -- sending helpers --------------------------------------------------------------------------
    def send(self, s, data: bytes, delay: float = 0.0, n: int = 0, piece: int = 0, hops: int = None):
        """send `data` after `delay` virtual seconds and `hops` further loop iterations (arrival phase relative to the
        client's own callbacks in the same instant is arbitrary on a real network, so scenarios may sweep it)"""
        if hops is None:
            hops = self.default_hops

        def go(h=hops):
            if h > 0:
                self.loop.call_soon(go, h - 1)
                return
            if s.fileno() == -1:
                self.loop.ev("psend_lost", self.owner, n, piece)
                return
            try:
                s.send(data)
                self.loop.ev("psend", self.owner, n, piece, data)
            except OSError as e:
                self.loop.ev("psend_fail", self.owner, n, piece, e.errno)
        if delay > 0:
            self.loop.call_later(delay, go)
        elif hops > 0:
            self.loop.call_soon(go, hops - 1)
        else:
            go()

    def send_error(self, s, err: int, delay: float = 0.0, n: int = 0):
        self.send(s, ERR_MARK + bytes([err]), delay, n, 99)

    def close_conn(self, s, delay: float = 0.0, n: int = 0):
        def go():
            self.loop.ev("pclose", self.owner, n)
            self._drop_sock(s)
        if delay > 0:
            self.loop.call_later(delay, go)
        else:
            go()

    def on_request(self, s, kind, frame: bytes, n: int):
        raise NotImplementedError


def default_payload(req: dict, n: int) -> bytes:
    """read answer payload: first register = address asked for, then the transmission serial."""
    cnt = req["count"]
    regs = [req["reg"] & 0xFFFF, n & 0xFFFF] + [(req["reg"] + i) & 0xFFFF for i in range(2, cnt)]
    return b"".join(r.to_bytes(2, "big") for r in regs[:cnt])


class ScriptedPeer(PeerBase):
    """Answers the k-th transmission it receives according to script[k-1] (then `after`)."""

    def __init__(self, owner, framing: str, script, T: float, after="drop", payload_fn=default_payload,
                 aa55_payload: bytes = None):
        super().__init__(owner)
        self.framing = framing          # 'rtu' | 'tcp' | 'aa55'
        self.script = list(script)
        self.after = after
        self.T = T
        self.payload_fn = payload_fn
        self.aa55_payload = aa55_payload
        self.requests: list = []        # (n, parsed request or error string)
        self.sent_frames: dict = {}     # n -> list of full frames sent contiguously for that transmission

    # -- frames ------------------------------------------------------------------------------------
    def parse(self, frame):
        if self.framing == "rtu":
            return rc.parse_rtu_request(frame)
        if self.framing == "tcp":
            return rc.parse_tcp_request(frame)
        return rc.parse_aa55_request(frame)

    def valid(self, req, n):
        if self.framing == "aa55":
            c = req["cmd"]
            rtype = AA55_ACK.get(c, "%02x%02x" % (int(c[0:2], 16), int(c[2:4], 16) | 0x80))
            if c == "011a":
                cnt = req["payload"][2]
                reg = int.from_bytes(req["payload"][0:2], "big")
                pl = default_payload({"reg": reg, "count": cnt}, n) if cnt else b""
            elif c[0:2] == "01":
                pl = self.aa55_payload if self.aa55_payload is not None else bytes([n & 0xFF]) * 40
            else:
                pl = b"\x06"
            return rc.aa55_response(rtype, pl)
        pl = self.payload_fn(req, n) if req["kind"] == "read" else None
        return rc.rtu_response(req, pl) if self.framing == "rtu" else rc.tcp_response(req, pl)

    def exception(self, req, code):
        if self.framing == "rtu":
            return rc.rtu_exception(req, code)
        if self.framing == "tcp":
            return rc.tcp_exception(req, code)
        return None

    def header_len(self):
        return 5 if self.framing == "rtu" else 9

    # -- behaviour ----------------------------------------------------------------------------------
    def on_request(self, s, kind, frame, n):
        sym = self.script[n - 1] if n <= len(self.script) else self.after
        try:
            req = self.parse(frame)
        except rc.BadFrame as e:
            self.requests.append((n, "BAD:" + str(e)))
            self.loop.ev("peer", self.owner, n, "unparsable", str(e))
            return
        self.requests.append((n, req))
        self.loop.ev("peer", self.owner, n, sym if isinstance(sym, str) else list(sym))
        self.act(s, req, n, sym)

    def act(self, s, req, n, sym):
        T = self.T
        name, args = (sym, ()) if isinstance(sym, str) else (sym[0], tuple(sym[1:]))
        v = self.valid(req, n)
        keep = self.sent_frames.setdefault(n, [])
        if name in ("drop", "senderr", "senderrlate"):
            return
        if name == "now":
            keep.append(v)
            return self.send(s, v, 0, n)
        if name == "intime":
            keep.append(v)
            return self.send(s, v, 0.5 * T, n)
        if name == "late":
            keep.append(v)
            return self.send(s, v, 1.5 * T, n)
        if name == "delay":
            keep.append(v)
            return self.send(s, v, args[0], n)
        if name == "garbage":
            g = bytes((7 * i + 3 * n + 1) & 0xFF for i in range(14))
            return self.send(s, g, 0, n)
        if name == "short":
            return self.send(s, b"\x01\x02\x03", 0, n)
        if name == "badsum":
            b = bytearray(v)
            if self.framing == "tcp":
                b[8] ^= 0x02            # wrong byte count (Modbus/TCP has no checksum)
            else:
                b[-1] ^= 0x55
            return self.send(s, bytes(b), 0, n)
        if name == "badstray":          # a damaged answer now and, after a delay, a few more stray bytes of that transmission (on whatever connection it came in)
            b = bytearray(v)
            if self.framing == "tcp":
                b[8] = max(0, b[8] - 2)     # (a byte count that is too SMALL: refused at once, not awaited as a fragment)
            else:
                b[-1] ^= 0x55
            self.send(s, bytes(b), 0, n, 1)
            return self.send(s, b"\x5a\x00\xa5", args[0], n, 2)
        if name == "excbad":            # exception frame with a wrong checksum (Modbus/TCP has none: sent intact there)
            e = self.exception(req, 2)
            if e is None:
                return
            if self.framing != "tcp":
                e = e[:-1] + bytes([e[-1] ^ 0x55])
            return self.send(s, e, 0, n)
        if name == "excmbap":           # Modbus/TCP exception frame whose MBAP length field is wrong (GoodWe firmware quirk: the
            e = self.exception(req, args[0])        # request's own length copied into the answer); intact frame on RTU
            if e is None:
                return
            if self.framing == "tcp":
                e = e[:4] + int(args[1]).to_bytes(2, "big") + e[6:]
            return self.send(s, e, 0, n)
        if name == "exc":
            code = args[0] if args else 2
            e = self.exception(req, code)
            if e is None:
                return
            return self.send(s, e, (args[1] if len(args) > 1 else 0), n)
        if name == "frag2":
            k = args[0] if args else self.header_len()
            d = args[1] if len(args) > 1 else 0.3 * T
            keep.append(v)
            self.send(s, v[:k], 0, n, 1)
            return self.send(s, v[k:], d, n, 2)
        if name == "fragthenfull":      # the first k bytes, then (0.1 T later) the WHOLE answer again: the request completes, the fragment was never used up
            k = args[0] if args else self.header_len()
            keep.append(v)
            self.send(s, v[:k], 0, n, 1)
            return self.send(s, v, (args[1] if len(args) > 1 else 0.1 * T), n, 2)
        if name == "tailonly":          # only the bytes of the valid answer from offset k on (its head is lost): nothing valid was sent
            k = args[0] if args else self.header_len()
            return self.send(s, v[k:], 0, n, 1)
        if name == "frag1":
            k = args[0] if args else self.header_len()
            return self.send(s, v[:k], 0, n, 1)
        if name == "fragexc":           # the first k bytes of a regular answer, then (after d) an exception frame: the inverter gave up the answer it had begun
            e = self.exception(req, args[1])
            if e is None:
                return
            self.send(s, v[:args[0]], 0, n, 1)
            return self.send(s, e, (args[2] if len(args) > 2 else 0), n, 2)
        if name == "pieces":            # arbitrary pieces: args = [(bytes, delay), ...]
            for i, (data, d) in enumerate(args[0]):
                self.send(s, data, d, n, i + 1)
            return
        if name == "raw":               # one arbitrary datagram / segment
            return self.send(s, args[0], (args[1] if len(args) > 1 else 0), n)
        if name == "dup":
            keep.append(v)
            self.send(s, v, 0, n, 1)
            return self.send(s, v, 0, n, 2)
        if name == "badnow":            # a corrupted copy of the answer and, in the same instant, the valid answer itself
            b = bytearray(v)
            if self.framing == "tcp":
                b[8] ^= 0x02
            else:
                b[-1] ^= 0x55
            keep.append(v)
            self.send(s, bytes(b), (args[0] if args else 0), n, 1)
            return self.send(s, v, (args[0] if args else 0), n, 2)
        if name == "baddup":            # the same corrupted answer twice in the same instant (a garbled answer duplicated on the way)
            b = bytearray(v)
            if self.framing == "tcp":
                b[8] ^= 0x02
            else:
                b[-1] ^= 0x55
            self.send(s, bytes(b), (args[0] if args else 0), n, 1)
            return self.send(s, bytes(b), (args[0] if args else 0), n, 2)
        if name in ("close", "closelate"):
            d = 0.0 if name == "close" else 0.5 * T
            if self.framing == "tcp" or s.type & 0xF == 1:      # SOCK_STREAM: real EOF
                return self.close_conn(s, d, n)
            return self.send_error(s, errno.ECONNREFUSED, d, n)
        if name == "nowexc":            # valid answer now, then a (late / duplicate) exception frame for the same request
            keep.append(v)
            self.send(s, v, 0, n, 1)
            e = self.exception(req, args[0])
            if e is not None:
                self.send(s, e, args[1], n, 2)
            return
        if name == "nowbad":            # valid answer now, then a corrupted copy after a delay (arrives while the socket is idle)
            keep.append(v)
            self.send(s, v, 0, n, 1)
            b = bytearray(v)
            if self.framing == "tcp":
                b[8] ^= 0x02
            else:
                b[-1] ^= 0x55
            return self.send(s, bytes(b), args[0], n, 2, hops=(args[1] if len(args) > 1 else 0))
        if name == "nowjunk":           # valid answer now, then a few stray bytes after a delay (line noise on the idle socket)
            keep.append(v)
            self.send(s, v, 0, n, 1)
            return self.send(s, b"\x5a\x00\xa5", args[0], n, 2, hops=(args[1] if len(args) > 1 else 0))
        if name == "nowdup":            # valid answer now, an exact duplicate of it after a delay (arrives when the request is long over)
            keep.append(v)
            self.send(s, v, 0, n, 1)
            return self.send(s, v, args[0], n, 2)
        if name == "nowfrag":           # valid answer now, then a lone first fragment of it after a delay (arrives while the socket is idle)
            keep.append(v)
            self.send(s, v, 0, n, 1)
            return self.send(s, v[:self.header_len() if self.framing != "aa55" else 9], args[0], n, 2, hops=(args[1] if len(args) > 1 else 0))
        if name == "badsumlate":        # a corrupted answer after a delay (default half a timeout)
            b = bytearray(v)
            if self.framing == "tcp":
                b[8] ^= 0x02
            else:
                b[-1] ^= 0x55
            return self.send(s, bytes(b), (args[0] if args else 0.5 * T), n)
        if name == "nowerr":            # valid answer now, then an OS error on the idle socket
            keep.append(v)
            self.send(s, v, 0, n, 1)
            return self.send_error(s, args[0], args[1], n)
        if name == "reset":
            return self.send_error(s, errno.ECONNRESET, (args[0] if args else 0), n)
        if name == "rxerr":
            return self.send_error(s, args[0], (args[1] if len(args) > 1 else 0), n)
        raise ValueError(f"unknown fault symbol {sym!r}")


class RegScriptPeer(ScriptedPeer):
    """Script keyed by the request's register: by_reg[reg][k-1] answers the k-th transmission of that register
    (robust against the library sending more or fewer transmissions than expected)."""

    def __init__(self, owner, framing, by_reg, T, after="drop", payload_fn=default_payload):
        super().__init__(owner, framing, [], T, after=after, payload_fn=payload_fn)
        self.by_reg = {int(k): list(v) for k, v in by_reg.items()}
        self.seen = {}

    def on_request(self, s, kind, frame, n):
        try:
            req = self.parse(frame)
        except rc.BadFrame as e:
            self.requests.append((n, "BAD:" + str(e)))
            self.loop.ev("peer", self.owner, n, "unparsable", str(e))
            return
        reg = req.get("reg", -1)
        k = self.seen.get(reg, 0) + 1
        self.seen[reg] = k
        scr = self.by_reg.get(reg, [])
        sym = scr[k - 1] if k <= len(scr) else self.after
        sym = tuple(sym) if isinstance(sym, list) else sym
        self.requests.append((n, req))
        self.loop.ev("peer", self.owner, n, sym if isinstance(sym, str) else list(sym), reg, k)
        self.act(s, req, n, sym)


# AA55 acknowledge types that differ from command | 0x80 (the library's own declaration is followed; see DESIGN 2.4)
AA55_ACK = {"0326": "03b6", "0327": "03b7"}
