"""Independent reference decoders for the typed sensors (DESIGN.md C12 / C13) and the read-log hook.

The oracle takes from the library's tables only *which* sensor (id, type name, register address, scale, label table)
sits where; the interpretation of the bytes per type name is written here from the documentation strings and the
conventions pinned by tests/test_sensor.py (Voltage/Current 0xFFFF -> 0, Power/Energy all-ones -> None,
Temp -1/32767 -> None, Integer/Long all-ones -> 0, ...).
"""
from __future__ import annotations

import math
import struct
from datetime import datetime
from fractions import Fraction


def u(b):
    return int.from_bytes(b, "big", signed=False)


def s(b):
    return int.from_bytes(b, "big", signed=True)


class NoRef(Exception):
    """No reference interpretation for this sensor type (it is then not part of the C12 claim)."""


class Undecodable(Exception):
    """The reference says: these bytes have no interpretation (library must give None / ValueError)."""


def own_span(sensor):
    """(register-relative byte offset within the register, byte length) the sensor may consume."""
    t = type(sensor).__name__
    sizes = {"Voltage": 2, "Current": 2, "CurrentS": 2, "Frequency": 2, "Power": 2, "PowerS": 2, "Power4": 4, "Power4S": 4,
             "Energy": 2, "Energy4": 4, "Energy4W": 4, "Energy8": 8, "Apparent": 2, "Apparent4": 4, "Reactive": 2,
             "Reactive4": 4, "Temp": 2, "CellVoltage": 2, "Byte": 1, "ByteH": 1, "ByteL": 2, "Integer": 2, "IntegerS": 2,
             "Long": 4, "LongS": 4, "Decimal": 2, "Float": 4, "Timestamp": 6, "Enum": 1, "EnumH": 1, "EnumL": 2, "Enum2": 2,
             "EnumBitmap4": 4, "EcoModeV1": 8, "EcoModeV2": 12, "Schedule": 12, "PeakShavingMode": 12}
    if t not in sizes:
        raise NoRef(t)
    return sizes[t]


def ref_value(sensor, raw: bytes):
    """Reference reading of `raw` = the sensor's own bytes (length own_span)."""
    t = type(sensor).__name__
    if t in ("Voltage", "Current"):
        v = u(raw[:2])
        return 0 if v == 0xFFFF else Fraction(v, 10)
    if t == "CurrentS":
        return Fraction(s(raw[:2]), 10)
    if t == "Frequency":
        return Fraction(s(raw[:2]), 100)
    if t == "Power":
        v = u(raw[:2])
        return None if v == 0xFFFF else v
    if t in ("PowerS", "Apparent", "Reactive", "IntegerS"):
        return s(raw[:2])
    if t == "Power4":
        v = u(raw[:4])
        return None if v == 0xFFFFFFFF else v
    if t in ("Power4S", "Apparent4", "Reactive4", "LongS"):
        return s(raw[:4])
    if t == "Energy":
        v = u(raw[:2])
        return None if v == 0xFFFF else Fraction(v, 10)
    if t == "Energy4":
        v = u(raw[:4])
        return None if v == 0xFFFFFFFF else Fraction(v, 10)
    if t == "Energy4W":
        v = u(raw[:4])
        return None if v == 0xFFFFFFFF else Fraction(v, 1000)
    if t == "Energy8":
        v = u(raw[:8])
        return None if v == 0xFFFFFFFFFFFFFFFF else Fraction(v, 100)
    if t == "Temp":
        v = s(raw[:2])
        return None if v in (-1, 32767) else Fraction(v, 10)
    if t == "CellVoltage":
        v = u(raw[:2])
        return 0 if v == 0xFFFF else Fraction(v, 1000)
    if t in ("Byte", "ByteH"):
        return s(raw[:1])
    if t == "ByteL":
        return s(raw[1:2])
    if t == "Integer":
        v = u(raw[:2])
        return 0 if v == 0xFFFF else v
    if t == "Long":
        v = u(raw[:4])
        return 0 if v == 0xFFFFFFFF else v
    if t == "Decimal":
        return Fraction(s(raw[:2]), sensor.scale)
    if t == "Float":
        f = struct.unpack(">f", raw[:4])[0]
        if math.isnan(f):
            return float("nan")
        if math.isinf(f):
            return f
        return ("round3", Fraction(f) / sensor.scale)
    if t == "Timestamp":
        y, mo, d, h, mi, se = raw[0], raw[1], raw[2], raw[3], raw[4], raw[5]
        try:
            return datetime(2000 + y, mo, d, h, mi, se)
        except ValueError:
            raise Undecodable("impossible date")
    if t == "Enum" or t == "EnumH":
        return sensor._labels.get(s(raw[:1]))
    if t == "EnumL":
        return sensor._labels.get(s(raw[1:2]))
    if t == "Enum2":
        v = u(raw[:2])
        return sensor._labels.get(0 if v == 0xFFFF else v)
    if t == "EnumBitmap4":
        v = s(raw[:4])
        return bitmap_labels(0 if v == -1 else v & 0xFFFFFFFF, sensor._labels)
    raise NoRef(t)


def bitmap_labels(value: int, table) -> str:
    out = []
    for i in range(32):
        if (value >> i) & 1:
            lab = table.get(i, f"err{i}")
            if lab:
                out.append(lab)
    return ", ".join(out)


def same(got, want) -> bool:
    """Compare a library value with a reference value (Fractions for exact decimals; NaN-aware; 1e-12 relative
    tolerance for floats, which legitimately differ from the exact rational in the last ulp above 2**53)."""
    if isinstance(want, tuple) and want and want[0] == "round3":
        exact = want[1]
        if not isinstance(got, (int, float)) or isinstance(got, bool):
            return False
        return abs(Fraction(got) - exact) <= Fraction(1, 2000) + abs(exact) * Fraction(1, 10 ** 7)
    if want is None or got is None:
        return want is None and got is None
    if isinstance(want, float):
        if math.isnan(want):
            return isinstance(got, float) and math.isnan(got)
        return got == want
    if isinstance(want, Fraction):
        if isinstance(got, bool) or not isinstance(got, (int, float)):
            return False
        if isinstance(got, float) and (math.isnan(got) or math.isinf(got)):
            return False
        return math.isclose(float(got), float(want), rel_tol=1e-12, abs_tol=0.0) or Fraction(got) == want
    if isinstance(want, int) and not isinstance(want, bool):
        return isinstance(got, (int, float)) and not isinstance(got, bool) and got == want
    return got == want


def show(v):
    if isinstance(v, Fraction):
        return str(float(v))
    if isinstance(v, tuple):
        return f"round({float(v[1])}, 3)"
    return repr(v)


# ---- read-log hook on ProtocolResponse (invariant hook (a) of DESIGN 2.5) -----------------------------------------
class ReadLog:
    """Wraps ProtocolResponse.seek/read to record (position, requested, returned) of every read."""

    def __init__(self, g):
        self.g = g
        self.log = []
        self.on = False
        PR = g.protocol.ProtocolResponse
        if getattr(PR, "_gwverif_hooked", False):
            self._rebind(PR)
            return
        orig_read = PR.read
        hook = self

        def read(self_, size):
            pos = self_._bytes.tell()
            data = orig_read(self_, size)
            h = PR._gwverif_hook
            if h.on:
                h.log.append((self_, pos, size, len(data)))
            return data

        PR.read = read
        PR._gwverif_hooked = True
        PR._gwverif_hook = hook

    def _rebind(self, PR):
        PR._gwverif_hook = self

    def start(self):
        self.log = []
        self.on = True

    def stop(self):
        self.on = False
        return self.log


def round_half_ok(got, exact: Fraction) -> bool:
    """round(v*i) with Python's float rounding: exact rational reference; a tie within 1e-9 accepts either neighbour."""
    fl = math.floor(exact)
    if exact == fl:
        return got == fl
    frac = exact - fl
    if abs(frac - Fraction(1, 2)) < Fraction(1, 10 ** 6):
        return got in (fl, fl + 1)
    return got == (fl + 1 if frac > Fraction(1, 2) else fl)
