"""Virtual-time asyncio loop over REAL asyncio transports (DESIGN.md 2.2).

* VLoop.time() is a virtual clock.  The selector wrapper never blocks: it polls the real selector with
  timeout 0 and, when nothing is ready, advances the clock by exactly the sleep asyncio asked for.
  Being asked to sleep forever while the workload is still pending is a HANG (nothing can wake it).
* create_datagram_endpoint / create_connection hand the library genuine _SelectorDatagramTransport /
  _SelectorSocketTransport objects over AF_UNIX socketpairs whose client end is a MonSocket: the wire tap
  and fault injector at the syscall boundary.
* The other end of every socketpair is attached to the peer registered for (host, port).
"""
from __future__ import annotations

import asyncio
import errno
import select
import selectors
import signal
import socket
import weakref

ERR_MARK = b"\x00ERR"          # in-band marker: peer -> MonSocket.recv*: raise OSError(errno)


class Hang(BaseException):
    """The loop would sleep forever while the workload is pending."""


class Runaway(BaseException):
    """Virtual time / transmission cap exceeded (unbounded activity)."""


class _VSelector:
    def __init__(self, loop_ref):
        self._sel = selectors.DefaultSelector()
        self._loop_ref = loop_ref

    def __getattr__(self, name):
        return getattr(self._sel, name)

    def select(self, timeout=None):
        loop = self._loop_ref()
        if loop._abort:
            reason, loop._abort = loop._abort, None
            raise Runaway(reason)
        ev = self._sel.select(0)
        if ev and loop.lowat_socks:
            ev = [(k, m) for (k, m) in ev if not loop._below_lowat(k.fd, m)]
        if ev:
            return ev
        if timeout is None:
            raise Hang("event loop idle forever with the workload still pending")
        if timeout > 0:
            loop._vnow += timeout
            if loop._vnow > loop.vtime_cap:
                raise Runaway(f"virtual time cap {loop.vtime_cap}s exceeded")
        return []


_SID = [0]      # socket ids are unique across all loops of the process


class MonSocket(socket.socket):
    """Client-side socket handed to asyncio: logs every syscall with the virtual time, injects faults."""

    def __init__(self, loop: "VLoop", real: socket.socket, peername, transport_kind: str, owner: str):
        super().__init__(real.family, real.type, real.proto, fileno=real.detach())
        self._l = loop
        # what the OS reports as the peer's address is numeric, whatever name the caller configured
        h = peername[0]
        if not all(x.isdigit() for x in str(h).split(".")) or str(h).count(".") != 3:
            h = "192.0.2.%d" % (sum(str(h).encode()) % 250 + 1)
        self._pn = (h,) + tuple(peername[1:])
        self.kind = transport_kind
        self.owner = owner
        _SID[0] += 1
        self.sid = _SID[0]
        loop.live[self.sid] = owner
        loop.ev("open", self.sid, owner, transport_kind)

    def getpeername(self):
        return self._pn

    def setsockopt(self, *a):
        # TCP keep-alive options are recorded and swallowed (AF_UNIX would reject them: harness artefact)
        self._l.ev("sockopt", self.sid, tuple(int(x) if isinstance(x, int) else repr(x) for x in a))
        if len(a) >= 3 and a[0] == socket.SOL_SOCKET and a[1] == socket.SO_RCVLOWAT and self.kind == "tcp" and isinstance(a[2], int):
            # the one option that changes WHEN received bytes are handed over: a TCP socket is not reported readable while
            # fewer than this many bytes are pending (tcp_stream_is_readable); AF_UNIX poll ignores it, so it is emulated
            self._rcvlowat = max(1, a[2])
            if self._rcvlowat > 1:
                self._l.lowat_socks[self.fileno()] = weakref.ref(self)
            else:
                self._l.lowat_socks.pop(self.fileno(), None)
        if self._l.sockopt_faults and len(a) >= 2 and a[0] == socket.IPPROTO_TCP:
            # a network stack that does not know this option (WSL1, gVisor, some containers): injected on request only
            err = self._l.sockopt_faults.pop(0)
            if err:
                self._l.ev("sockopterr", self.sid, err)
                raise OSError(err, "injected: protocol option not available")

    def send(self, data, *a):
        l = self._l
        l.ntx += 1
        if l.ntx > l.tx_cap:
            l._abort = f"transmission cap {l.tx_cap} exceeded"
        l.ev("tx", self.sid, self.owner, bytes(data))
        err = l.send_faults.pop((self.owner, l.ntx_by_owner(self.owner)), None)
        if err is None and l.armed_send_faults:
            err = l.armed_send_faults.pop(0)
        if err:
            l.ev("txerr", self.sid, self.owner, err)
            raise OSError(err, "injected send error")
        return super().send(data, *a)

    def sendto(self, data, addr=None):
        return self.send(data)

    def _chk(self, d: bytes) -> bytes:
        if d.startswith(ERR_MARK):
            e = d[4]
            self._l.ev("rxerr", self.sid, self.owner, e)
            cls = {errno.ECONNREFUSED: ConnectionRefusedError, errno.ECONNRESET: ConnectionResetError}.get(e, OSError)
            raise cls(e, "injected receive error")
        assert ERR_MARK not in d, "harness: error marker coalesced with data"
        self._l.ev("rx", self.sid, self.owner, d)
        return d

    def recvfrom(self, n, *a):
        return self._chk(super().recv(n)), self._pn

    def recv(self, n, *a):
        # stream socket: an in-band error marker may sit behind (or in front of) ordinary data in the kernel buffer;
        # consume only up to / exactly the marker so that data and error are delivered by separate recv() calls
        peek = super().recv(n, socket.MSG_PEEK)
        p = peek.find(ERR_MARK)
        if p > 0:
            d = super().recv(p)
        elif p == 0:
            d = super().recv(len(ERR_MARK) + 1)
        else:
            d = super().recv(n, *a)
        if not d:
            self._l.ev("eof", self.sid, self.owner)
            return d
        return self._chk(d)

    def close(self):
        if self.fileno() != -1:
            self._l.lowat_socks.pop(self.fileno(), None)
            self._l.live.pop(self.sid, None)
            self._l.ev("close", self.sid, self.owner)
        super().close()


class VLoop(asyncio.SelectorEventLoop):
    def __init__(self):
        self._vnow = 0.0
        self._abort = None
        self.vtime_cap = 3600.0
        self.tx_cap = 2000
        self.events: list = []
        self.live: dict = {}            # sid -> owner, sockets currently open
        self.transports: dict = {}      # sid -> weak reference to the asyncio transport created on that socket
        self.peers: dict = {}           # (host, port) -> peer object with attach(sock, kind)
        self.owners: dict = {}          # (host, port) -> owner label
        self.lowat_socks: dict = {}     # fd -> weakref(MonSocket) with an emulated SO_RCVLOWAT > 1
        self.sockopt_faults: list = []  # errnos for the next TCP-level setsockopt() calls (0 = succeed)
        self.connect_scripts: dict = {}  # owner -> list of outcomes ('ok'|'refused'|'unreach'|'hang'|('ok', delay))
        self.send_faults: dict = {}     # (owner, k-th send of owner) -> errno
        self.armed_send_faults: list = []  # errnos consumed by the next send() calls (armed by a scenario step)
        self.ntx = 0
        self._ntx_owner: dict = {}
        self._sock_seq = 0
        self.loop_errors: list = []
        super().__init__(_VSelector(weakref.ref(self)))
        self._clock_resolution = 1e-9
        self.set_exception_handler(self._on_loop_error)

    def _below_lowat(self, fd, mask) -> bool:
        """True when a read-readiness event must be withheld: an emulated SO_RCVLOWAT is set, fewer bytes than that are
        pending and the peer has neither closed nor queued an error (those make a TCP socket readable at once)."""
        ref = self.lowat_socks.get(fd)
        ms = ref() if ref else None
        if ms is None or not (mask & selectors.EVENT_READ) or (mask & selectors.EVENT_WRITE):
            return False
        try:
            peek = socket.socket.recv(ms, ms._rcvlowat, socket.MSG_PEEK)
        except (BlockingIOError, InterruptedError):
            return False
        except OSError:
            return False
        if not peek or len(peek) >= ms._rcvlowat or ERR_MARK in peek:
            return False
        p = select.poll()
        p.register(fd, select.POLLIN | select.POLLRDHUP)
        for _fd, m in p.poll(0):
            if m & (select.POLLRDHUP | select.POLLHUP | select.POLLERR):
                return False
        self.ev("lowat_hold", ms.sid, len(peek), ms._rcvlowat)
        return True

    # -- clock / log --------------------------------------------------------------------------------
    def time(self):
        return self._vnow

    def ev(self, kind, *a):
        self.events.append((round(self._vnow, 9), kind) + a)

    def ntx_by_owner(self, owner):
        n = self._ntx_owner.get(owner, 0) + 1
        self._ntx_owner[owner] = n
        return n

    def _on_loop_error(self, loop, ctx):
        self.loop_errors.append({"message": ctx.get("message"), "exception": repr(ctx.get("exception")),
                                 "t": round(self._vnow, 9)})
        self.ev("looperr", ctx.get("message"), repr(ctx.get("exception")))

    def register(self, host, port, peer, owner=None):
        self.peers[(host, port)] = peer
        self.owners[(host, port)] = owner or host

    # -- transports ---------------------------------------------------------------------------------
    async def create_datagram_endpoint(self, protocol_factory, local_addr=None, remote_addr=None, **kw):
        await asyncio.sleep(0)          # a real endpoint creation takes at least one loop iteration
        key = tuple(remote_addr)
        owner = self.owners.get(key, key[0])
        # opening the datagram endpoint can fail too (connect() on a UDP socket consults the routing table: no route while the
        # interface is down, EACCES from a packet filter); scripted through the same per-owner outcome list as TCP connects
        script = self.connect_scripts.get(owner)
        act = script.pop(0) if script else "ok"
        if isinstance(act, (tuple, list)):
            act = act[0]
        if act != "ok":
            self.ev("connect", owner, act, 0.0)
            if act == "perm":
                raise PermissionError(errno.EACCES, "injected: permission denied")
            raise OSError(errno.ENETUNREACH, "injected: network unreachable")
        a, b = socket.socketpair(socket.AF_UNIX, socket.SOCK_DGRAM)
        a.setblocking(False)
        b.setblocking(False)
        cs = MonSocket(self, a, key, "udp", owner)
        self.peers[key].attach(b, "udp")
        res_ = await super().create_datagram_endpoint(protocol_factory, sock=cs)
        self.transports[cs.sid] = weakref.ref(res_[0])
        return res_

    async def create_connection(self, protocol_factory, host=None, port=None, **kw):
        await asyncio.sleep(0)
        key = (host, port)
        owner = self.owners.get(key, host)
        script = self.connect_scripts.get(owner)
        act = script.pop(0) if script else "ok"
        delay = 0.0
        if isinstance(act, (tuple, list)):
            act, delay = act
        self.ev("connect", owner, act, delay)
        if delay:
            await asyncio.sleep(delay)
        if act == "refused":
            raise ConnectionRefusedError(errno.ECONNREFUSED, "injected: connection refused")
        if act == "unreach":
            raise OSError(errno.ENETUNREACH, "injected: network unreachable")
        if act == "hostunreach":
            raise OSError(errno.EHOSTUNREACH, "injected: no route to host")
        if act == "timeout":
            raise TimeoutError(errno.ETIMEDOUT, "injected: connect timed out")
        if act == "hang":
            await asyncio.sleep(1e5)    # a SYN that is never answered; the library must bound this itself
            raise TimeoutError(errno.ETIMEDOUT, "injected: connect timed out")
        a, b = socket.socketpair(socket.AF_UNIX, socket.SOCK_STREAM)
        a.setblocking(False)
        b.setblocking(False)
        cs = MonSocket(self, a, key, "tcp", owner)
        self.peers[key].attach(b, "tcp")
        res_ = await super().create_connection(protocol_factory, sock=cs)
        self.transports[cs.sid] = weakref.ref(res_[0])
        return res_

    def open_transports(self):
        """sockets that are open AND whose asyncio transport has not been told to close (a transport that is closing only waits for the loop to
        run its connection_lost callback: it is closed as far as its user is concerned)"""
        out = []
        for sid in self.live:
            ref = self.transports.get(sid)
            tr = ref() if ref is not None else None
            if tr is not None and not tr.is_closing():
                out.append(sid)
        return out

    # -- teardown -----------------------------------------------------------------------------------
    def shutdown(self):
        try:
            for t in asyncio.all_tasks(self):
                t._log_destroy_pending = False
        except Exception:
            pass
        for p in {id(p): p for p in self.peers.values()}.values():
            try:
                p.close_all()
            except Exception:
                pass
        try:
            if not self.is_closed():
                self.close()
        except Exception:
            pass


def run_on_vloop(coro_factory, setup=None):
    """Run `await coro_factory(loop)` on a fresh VLoop.  Returns (result, hang_or_runaway, loop)."""
    loop = VLoop()
    asyncio.set_event_loop(loop)
    if setup:
        setup(loop)
    res, stop = None, None
    try:
        with cpu_guard():
            res = loop.run_until_complete(coro_factory(loop))
    except Hang as h:
        stop = "HANG: " + str(h)
    except Runaway as r:
        stop = "RUNAWAY: " + str(r)
    return res, stop, loop


class cpu_guard:
    """CPU guard: one workload on the virtual loop needs milliseconds of processor time; the budget is counted in this process' own user-mode CPU
    seconds (ITIMER_VIRTUAL), so machine load cannot make it fire - only code that does not terminate (a decoding loop without end)."""

    def __enter__(self):
        self.armed = False
        try:
            signal.signal(signal.SIGVTALRM, _cpu_exceeded)
            signal.setitimer(signal.ITIMER_VIRTUAL, CPU_BUDGET[0])
            self.armed = True
        except (ValueError, OSError, AttributeError):
            pass                # (not the main thread / platform without the timer: no guard, the shard watchdog remains)
        return self

    def __exit__(self, *a):
        if self.armed:
            signal.setitimer(signal.ITIMER_VIRTUAL, 0)
        return False


CPU_BUDGET = [float(__import__("os").environ.get("VERIF_CPU_BUDGET", "15"))]


def _cpu_exceeded(signum, frame):
    b = CPU_BUDGET[0]
    CPU_BUDGET[0] = 1.0         # the tree under test has shown that it can spin: later workloads of this process get a short leash
    where = f"{frame.f_code.co_filename.rsplit('/', 2)[-1]}:{frame.f_lineno} in {frame.f_code.co_name}" if frame is not None else "?"
    raise Runaway(f"one workload used more than {b:.0f} s of CPU time without finishing (executing {where}): the code does not terminate")
