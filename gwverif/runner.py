"""Sharding, verdicts, evidence, replay files and known findings (DESIGN.md 2.6 / 2.7).

A check module (gwverif/checks/cXX.py) provides
    PROPERTY, LEVEL ('exploration'|'fault_enumeration'), RULE (str), ASSUMPTIONS (list[str]),
    MUST (list of counter names that must be > 0, else the verdict is INCONCLUSIVE),
    plan(tier, seed) -> list of JSON-able shard specs,
    run_shard(spec) -> Part,
    replay(case) -> list of violation dicts (re-runs exactly one recorded case).
"""
from __future__ import annotations

import hashlib
import importlib
import json
import os
import subprocess
import sys
import time

from . import env

MAX_PAR = int(os.environ.get("VERIF_JOBS", "16"))


class Part:
    """What one shard observed."""

    def __init__(self):
        self.evaluations = 0
        self.distinct = set()
        self.samples = []
        self.counters = {}
        self.violations = []        # [{'key':..., 'msg':..., 'case':...}] (first few per key kept)
        self.vkeys = {}             # key -> count
        self.exhaustive = True
        self.notes = []
        self.reach = {}

    def count(self, name, n=1):
        self.counters[name] = self.counters.get(name, 0) + n

    def see(self, key):
        self.distinct.add(key if isinstance(key, str) else json.dumps(key, default=str))

    def sample(self, s, cap=6):
        if len(self.samples) < cap:
            self.samples.append(s)

    def violate(self, key, msg, case):
        self.vkeys[key] = self.vkeys.get(key, 0) + 1
        if self.vkeys[key] <= 3 and len(self.violations) < 60:
            if DEBUG_LOG[0] and isinstance(case, dict):
                case = dict(case, _debug_log=True)      # environment of the shard, needed to replay
            self.violations.append({"key": key, "msg": msg, "case": case})

    def dump(self, path):
        with open(path, "w") as f:
            json.dump({"evaluations": self.evaluations, "distinct": sorted(self.distinct), "samples": self.samples,
                       "counters": self.counters, "violations": self.violations, "vkeys": self.vkeys,
                       "exhaustive": self.exhaustive, "notes": self.notes, "reach": self.reach}, f, default=_js)


def _js(o):
    if isinstance(o, (bytes, bytearray)):
        return o.hex()
    if isinstance(o, (set, tuple)):
        return list(o)
    return repr(o)


def load_check(pid: str):
    return importlib.import_module(f"gwverif.checks.{pid.lower()}")


# ---- known findings --------------------------------------------------------------------------------
def load_findings():
    known, fixed = [], []
    path = os.path.join(env.VERIF, "KNOWN_FINDINGS.txt")
    if os.path.exists(path):
        for line in open(path):
            line = line.strip()
            if not line or line.startswith("#"):
                continue
            kind, _, rest = line.partition(":")
            fields = dict(tok.split("=", 1) for tok in rest.split() if "=" in tok and tok.split("=", 1)[0] in ("property", "key"))
            text = " ".join(t for t in rest.split() if not t.startswith("property="))
            if kind == "known":
                known.append({"property": fields.get("property"), "key": fields.get("key"), "text": text})
            elif kind == "fixed":
                fixed.append({"property": fields.get("property"), "key": fields.get("key"), "text": text})
    return known, fixed


def match_known(known, pid, key):
    for k in known:
        if k["property"] == pid and k["key"] and (key == k["key"] or key.startswith(k["key"] + "/")):
            return k
    return None


# ---- shard process ---------------------------------------------------------------------------------
DEBUG_LOG = [False]


class _FormatAndDrop(__import__("logging").Handler):
    """What an application with debug logging switched on does to every record: format it (which evaluates the
    arguments' __repr__/__str__).  The text is dropped; an exception raised while formatting is NOT swallowed."""

    def emit(self, record):
        record.getMessage()

    def handleError(self, record):
        raise


def set_logging(debug: bool):
    """Environment dimension 'log level': every second shard runs with the goodwe logger at DEBUG (as a user who
    switched on debug logging would), the others with logging disabled."""
    import logging
    if debug:
        logging.disable(logging.NOTSET)
        lg = logging.getLogger("goodwe")
        lg.setLevel(logging.DEBUG)
        lg.propagate = False
        if not any(isinstance(h, _FormatAndDrop) for h in lg.handlers):
            lg.addHandler(_FormatAndDrop())
        logging.getLogger("asyncio").setLevel(logging.CRITICAL + 1)
        logging.raiseExceptions = True
    else:
        logging.disable(logging.CRITICAL)     # the library logs every retry / decode error; keep the shard's output small
    DEBUG_LOG[0] = debug


def shard_main(pid, spec_path, out_path):
    import faulthandler
    faulthandler.enable()
    wd = int(os.environ.get("VERIF_SHARD_WATCHDOG", "0"))
    if wd:
        faulthandler.dump_traceback_later(wd, exit=True)
    try:
        # a defect that makes the code under test allocate without end (a decoding loop that never terminates) must end as a MemoryError inside
        # this shard - an exception the monitors see - not as a machine out of memory
        import resource
        lim = int(os.environ.get("VERIF_SHARD_MEMORY", str(6 << 30)))
        resource.setrlimit(resource.RLIMIT_AS, (lim, lim))
    except (ImportError, ValueError, OSError):
        pass
    set_logging(os.environ.get("VERIF_DEBUG_LOG") == "1")
    env.ensure_deps()
    from . import reach
    reach.start()           # before goodwe is imported, so that import-time lines count as reached
    env.goodwe()
    mod = load_check(pid)
    spec = json.load(open(spec_path))
    part = mod.run_shard(spec)
    part.reach = reach.hits()
    part.dump(out_path)
    return 0


# ---- parent ----------------------------------------------------------------------------------------
def run_check(pid: str, tier: str) -> int:
    t0 = time.time()
    env.ensure_deps()
    mod = load_check(pid)
    seed = env.seed()
    specs = mod.plan(tier, seed)
    work = os.path.join(env.WORK, f"{pid}-{tier}-{os.getpid()}")
    os.makedirs(work, exist_ok=True)
    vcheck = os.path.join(env.VERIF, "vcheck")
    budget = getattr(mod, "SHARD_TIMEOUT", {"quick": 600, "thorough": 5400})[tier]
    childenv = dict(os.environ, GOODWE_VERIF="1", PYTHONHASHSEED="0", VERIF_SEED=str(seed), VERIF_TIER=tier,
                    VERIF_SHARD_WATCHDOG=str(budget))
    pending = list(enumerate(specs))
    running = {}
    results = {}
    inconclusive = []
    while pending or running:
        while pending and len(running) < MAX_PAR:
            i, spec = pending.pop(0)
            sp, op = os.path.join(work, f"s{i}.spec.json"), os.path.join(work, f"s{i}.part.json")
            json.dump(spec, open(sp, "w"), default=_js)
            p = subprocess.Popen([sys.executable] + (["-X", "dev"] if getattr(mod, "DEV_MODE", False) else []) +
                                 [vcheck, "shard", pid, sp, op],
                                 env=dict(childenv, VERIF_DEBUG_LOG=str((i + seed) % 2)), stdout=open(op + ".log", "w"), stderr=subprocess.STDOUT, text=True)
            running[i] = (p, op, time.time())
        for i, (p, op, st) in list(running.items()):
            rc_ = p.poll()
            if rc_ is None:
                if time.time() - st > budget + 30:
                    p.kill()
                    p.wait()
                    inconclusive.append(f"shard {i} exceeded the wall-clock watchdog ({budget}s)")
                    del running[i]
                continue
            try:
                out = open(op + ".log").read()[-4000:]
            except OSError:
                out = ""
            del running[i]
            if rc_ != 0 or not os.path.exists(op):
                inconclusive.append(f"shard {i} died (exit {rc_}): {out.strip()[-600:]}")
            else:
                results[i] = json.load(open(op))
                if out.strip():
                    results[i].setdefault("notes", []).append(out.strip()[-400:])
        time.sleep(0.02)

    # ---- merge
    evaluations = sum(r["evaluations"] for r in results.values())
    distinct = set()
    samples, counters, violations, vkeys, notes = [], {}, [], {}, []
    exhaustive = bool(results) and not inconclusive
    for i in sorted(results):
        r = results[i]
        distinct.update(r["distinct"])
        samples.extend(r["samples"][:3])
        for k, v in r["counters"].items():
            counters[k] = counters.get(k, 0) + v
        violations.extend(r["violations"])
        for k, v in r["vkeys"].items():
            vkeys[k] = vkeys.get(k, 0) + v
        exhaustive = exhaustive and r["exhaustive"]
        notes.extend(r.get("notes", []))
    # line reach inside the anchor files of the property
    reached = {}
    for r in results.values():
        for f, ls in (r.get("reach") or {}).items():
            reached.setdefault(f, set()).update(ls)
    reach_summary = {}
    try:
        from . import reach as _reach
        anchors = set()
        for line in open(os.path.join(env.VERIF, "properties.jsonl")):
            pr = json.loads(line)
            if pr["id"] == pid:
                anchors = {os.path.basename(x) for x in pr["anchors"]["files"]}
        ex = _reach.executable_lines()
        for f in sorted(anchors):
            if f in ex:
                hit = reached.get(f, set()) & set(ex[f])
                reach_summary[f] = {"executable_lines": len(ex[f]), "reached": len(hit),
                                    "unreached_sample": [l for l in ex[f] if l not in hit][:25]}
        # side file for tools/reachunion.py (union of what all checks executed in the package; not part of the evidence schema)
        os.makedirs(os.path.join(env.WORK, "reach"), exist_ok=True)
        with open(os.path.join(env.WORK, "reach", f"{pid}-{tier}.json"), "w") as fh:
            json.dump({"reached": {f: sorted(v) for f, v in reached.items()}, "executable": ex}, fh)
    except Exception as e:      # noqa
        reach_summary = {"error": repr(e)}
    for m in getattr(mod, "MUST", []):
        if counters.get(m, 0) <= 0:
            inconclusive.append(f"must-observe counter '{m}' is zero: the deciding monitor was never reached")
    if evaluations == 0:
        inconclusive.append("no case was evaluated")

    known, _fixed = load_findings()
    new_keys, known_hits = {}, {}
    for k, cnt in vkeys.items():
        m = match_known(known, pid, k)
        if m:
            known_hits.setdefault(m["key"], [m, 0])[1] += cnt
        else:
            new_keys[k] = cnt

    # ---- replay files for new violations
    replay_paths = {}
    if new_keys:
        rdir = os.path.join(env.VERIF, "replays", pid)
        os.makedirs(rdir, exist_ok=True)
        for v in violations:
            if v["key"] in new_keys and v["key"] not in replay_paths:
                blob = json.dumps({"property": pid, "seed": seed, "tier": tier, "key": v["key"], "msg": v["msg"],
                                   "case": v["case"]}, default=_js, indent=1)
                path = os.path.join(rdir, hashlib.sha1(blob.encode()).hexdigest()[:16] + ".json")
                open(path, "w").write(blob)
                replay_paths[v["key"]] = path

    wall = time.time() - t0
    cov = {
        "evaluations": evaluations,
        "distinct_nontrivial": len(distinct),
        "rule": mod.RULE,
        "samples": samples[:12] or ["(none)"],
        "exhaustive": bool(exhaustive and getattr(mod, "EXHAUSTIVE", {}).get(tier, False)),
        "monitor_counters": counters,
        "shards": len(specs),
        "verdict": "violated" if new_keys else ("inconclusive" if inconclusive else "held"),
        "inconclusive_reasons": inconclusive,
        "known_findings_matched": {k: v[1] for k, v in known_hits.items()},
        "violation_keys": new_keys,
        "anchor_file_line_reach": reach_summary,
        "code_under_test": env.repo_state(),
        "notes": notes[:10],
    }
    extra = getattr(mod, "coverage_extra", None)
    if extra:
        cov.update(extra(counters, tier))
    evidence = {"property_id": pid, "tier": tier, "seed": seed, "level": mod.LEVEL, "coverage": cov,
                "assumptions": list(mod.ASSUMPTIONS), "wall_s": round(wall, 2), "violations": sum(new_keys.values())}
    os.makedirs(os.path.join(env.VERIF, "evidence"), exist_ok=True)
    if not os.environ.get("GOODWE_VERIF_REPO"):
        with open(os.path.join(env.VERIF, "evidence", f"{pid}.json"), "w") as f:
            json.dump(evidence, f, indent=1, default=_js)
    else:
        with open(os.path.join(work, "evidence.json"), "w") as f:
            json.dump(evidence, f, indent=1, default=_js)

    # ---- report
    print(f"[{pid}/{tier}] seed={seed} shards={len(specs)} evaluations={evaluations} distinct={len(distinct)} "
          f"wall={wall:.1f}s tree={cov['code_under_test']['head'][:8]}{'+dirty' if cov['code_under_test']['dirty'] else ''}")
    shown = {k: counters[k] for k in sorted(counters)[:40]}
    print(f"[{pid}/{tier}] monitors observed: {json.dumps(shown)}")
    for key, (m, cnt) in known_hits.items():
        print(f"KNOWN-FINDING: property={pid} {m['text']} (seen {cnt}x in this run)")
    rcode = 0
    if new_keys:
        for k, cnt in sorted(new_keys.items()):
            v = next((x for x in violations if x["key"] == k), None)
            print(f"  violation key={k} count={cnt} :: {v['msg'] if v else ''}")
            if k in replay_paths:
                print(f"VIOLATION property={pid} replay={replay_paths[k]}")
            else:
                print(f"VIOLATION property={pid} replay=(see evidence; key={k})")
        rcode = 1
    elif inconclusive:
        for r in inconclusive:
            print(f"INCONCLUSIVE property={pid} reason={r}")
        rcode = 2
    else:
        print(f"[{pid}/{tier}] HELD on everything observed")
    # scratch parts are not needed any more
    try:
        import shutil
        shutil.rmtree(work, ignore_errors=True)
    except Exception:
        pass
    return rcode


def replay_main(path: str) -> int:
    env.ensure_deps()
    env.goodwe()
    rec = json.load(open(path))
    mod = load_check(rec["property"])
    set_logging(isinstance(rec["case"], dict) and bool(rec["case"].get("_debug_log")))
    vs = mod.replay(rec["case"])
    print(f"replay of {path}: property={rec['property']} recorded key={rec['key']}")
    print(f"recorded: {rec['msg']}")
    if vs:
        for v in vs:
            print(f"REPRODUCED key={v['key']} :: {v['msg']}")
        print(f"VIOLATION property={rec['property']} replay={path}")
        return 1
    print("not reproduced on the current tree")
    return 0
