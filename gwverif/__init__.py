"""Runtime-monitoring machinery for marcelblijleven/goodwe (see /verif/DESIGN.md)."""
