"""`vcheck selftest`: does each check bite?  (DESIGN.md 2.8)

For every mutant under /verif/seeded/<name>/ (patch.diff + meta.json) and every own mutant under
/verif/selftest/mutants/<name>.patch: make a scratch worktree of /repo's HEAD outside /repo and /verif, apply the
patch, run the owning check (quick tier) with GOODWE_VERIF_REPO pointing at the copy, expect exit 1, remove the copy.
Reverted fix: commits (`revert:<sha>`) are handled the same way.  The kill matrix goes to evidence/selftest.json.

  ./vcheck selftest [--only NAME_SUBSTR] [--checks C04,C05] [--tier quick] [--all-checks]
"""
from __future__ import annotations

import glob
import json
import os
import shutil
import subprocess
import sys
import tempfile
import time

from . import env


def sh(*a, cwd=None, timeout=3600, env_=None):
    r = subprocess.run(a, cwd=cwd, capture_output=True, text=True, timeout=timeout, env=env_)
    return r.returncode, r.stdout + r.stderr


def mutants():
    out = []
    for d in sorted(glob.glob(os.path.join(env.VERIF, "seeded", "*"))):
        p = os.path.join(d, "patch.diff")
        if os.path.exists(p):
            meta = json.load(open(os.path.join(d, "meta.json")))
            if meta.get("neutralised_by"):
                continue        # (a later fix: commit made this change harmless: its own demonstration passes now; kept for the record)
            out.append({"name": os.path.basename(d), "patch": p, "property": meta.get("property"),
                        "also": meta.get("also_expected", []), "kind": "seeded"})
    for p in sorted(glob.glob(os.path.join(env.VERIF, "selftest", "mutants", "*.patch"))):
        name = os.path.basename(p)[:-6]
        out.append({"name": name, "patch": p, "property": name.split("-")[0], "also": [], "kind": "own"})
    rf = os.path.join(env.VERIF, "selftest", "reverted_fixes.json")
    if os.path.exists(rf):
        for r in json.load(open(rf)):
            if r.get("superseded_by"):
                continue
            out.append({"name": "revert-" + r["commit"][:7], "revert": r["commit"], "property": r["properties"][0],
                        "also": r["properties"][1:], "kind": "reverted-fix"})
    return out


def main(argv):
    only = argv[argv.index("--only") + 1] if "--only" in argv else None
    tier = argv[argv.index("--tier") + 1] if "--tier" in argv else "quick"
    checks_override = argv[argv.index("--checks") + 1].split(",") if "--checks" in argv else None
    vcheck = os.path.join(env.VERIF, "vcheck")
    results = []
    matrix_path = os.path.join(env.VERIF, "evidence", "selftest.json")
    for m in mutants():
        if only and only not in m["name"]:
            continue
        wt = tempfile.mkdtemp(prefix="gwverif-selftest-")
        os.rmdir(wt)
        rc, out = sh("git", "-C", "/repo", "worktree", "add", "--detach", wt, "HEAD")
        if rc:
            print(m["name"], "worktree failed", out[-200:])
            continue
        try:
            if "revert" in m:
                rc, out = sh("git", "-C", wt, "revert", "--no-commit", m["revert"])
            else:
                # 3-way first: it locates the hunks through the blobs the patch was written against. (A plain apply searches for the context lines
                # anywhere in the file and has put hunks meant for UdpInverterProtocol into the look-alike lines of TcpInverterProtocol once a fix:
                # commit had changed the former.) Without the blobs git falls back to the plain application by itself.
                rc, out = sh("git", "-C", wt, "apply", "--3way", m["patch"])
                if rc:
                    sh("git", "-C", wt, "reset", "--hard", "-q", "HEAD")
            if rc:
                print(f"{m['name']}: patch does not apply: {out[-200:]}")
                results.append({"mutant": m["name"], "applies": False})
                continue
            checks = checks_override or [m["property"]] + list(m["also"])
            row = {"mutant": m["name"], "kind": m["kind"], "property": m["property"], "applies": True, "checks": {}}
            for pid in checks:
                t0 = time.time()
                e = dict(os.environ, GOODWE_VERIF_REPO=wt)
                rc, out = sh(vcheck, "run", pid, "--tier", tier, env_=e)
                keys = sorted({l.split("key=")[1].split()[0] for l in out.splitlines() if l.strip().startswith("violation key=")})
                row["checks"][pid] = {"exit": rc, "caught": rc == 1, "keys": keys[:8], "wall_s": round(time.time() - t0, 1)}
                print(f"{m['name']:<28} {pid}: exit={rc} {'CAUGHT' if rc == 1 else 'MISSED' if rc == 0 else 'INCONCLUSIVE'} "
                      f"{keys[:3]} ({time.time() - t0:.0f}s)")
            results.append(row)
        finally:
            sh("git", "-C", "/repo", "worktree", "remove", "--force", wt)
            shutil.rmtree(wt, ignore_errors=True)
    # merge into the stored matrix
    old = {}
    if os.path.exists(matrix_path):
        try:
            old = {r["mutant"]: r for r in json.load(open(matrix_path))["results"]}
        except Exception:
            old = {}
    for r in results:
        if r["mutant"] in old and r.get("checks") and old[r["mutant"]].get("checks"):
            merged = dict(old[r["mutant"]]["checks"])
            merged.update(r["checks"])
            r["checks"] = merged
        old[r["mutant"]] = r
    os.makedirs(os.path.dirname(matrix_path), exist_ok=True)
    json.dump({"tier": tier, "base": env.repo_state(), "results": [old[k] for k in sorted(old)]},
              open(matrix_path, "w"), indent=1)
    missed = [r["mutant"] for r in results if r.get("applies") and not any(c["caught"] for c in r["checks"].values())]
    print(f"selftest: {len(results)} mutants run, missed: {missed}")
    return 1 if missed else 0
