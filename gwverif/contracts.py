"""Runtime contracts (icontract) on the REAL functions of goodwe, attached from outside (DESIGN.md 2.1 / 2.5).

Conditions *record and return True*, so a violated contract never alters the run it observes.  The known bypass -
references bound before patching (`from .modbus import validate_...` inside protocol.py) - is closed by patching the
name in BOTH modules; every contract counts its evaluations and a zero count makes the check inconclusive.
"""
from __future__ import annotations

import functools

import icontract

from . import env
from . import refcodec as rc


class ContractBroken(Exception):
    pass


class Sink:
    """Where contract evaluations report to (a runner.Part or anything with count/violate)."""

    def __init__(self, part):
        self.part = part
        self.ctx = None         # optional: extra context for messages (e.g. the scenario being run)

    def count(self, name, n=1):
        self.part.count(name, n)

    def violate(self, key, msg, case):
        self.part.violate(key, msg, case)


_installed = {}


def desc_from_args(framing, fc, offset, value):
    kind = {rc.READ: "read", rc.WRITE: "write", rc.WRITE_MULTI: "multi"}.get(fc)
    d = {"framing": framing, "kind": kind, "reg": offset, "comm": None}
    if kind == "read" or kind == "multi":
        d["count"] = value
    else:
        d["value"] = value
    return d


def install_validator_contracts(sink: Sink):
    """C01: a validator may return True only for a frame the property allows to be accepted, and may raise only
    PartialResponseException / RequestRejectedException."""
    if "validators" in _installed:
        _installed["validators"].part = sink.part
        return
    _installed["validators"] = sink
    g = env.goodwe()
    ex = g.exceptions
    documented = (ex.PartialResponseException, ex.RequestRejectedException)

    def make(framing, fn, name):
        def accepted_only_if_well_formed(data, cmd, offset, value, result):
            s = _installed["validators"]
            s.count(f"contract_eval_{name}")
            if result is True:
                why = rc.c01_accept_ok(desc_from_args(framing, cmd, offset, value), bytes(data))
                if why:
                    s.violate(f"C01/{framing}/accepted-invalid-frame",
                              f"{name}({bytes(data).hex()[:80]}, cmd={cmd}, offset={offset}, value={value}) returned True: {why}",
                              {"framing": framing, "data": bytes(data).hex(), "cmd": cmd, "offset": offset, "value": value})
            elif result is not False:
                s.violate(f"C01/{framing}/undocumented-result", f"{name} returned {result!r}",
                          {"framing": framing, "data": bytes(data).hex(), "cmd": cmd, "offset": offset, "value": value})
            return True

        contracted = icontract.ensure(accepted_only_if_well_formed, error=ContractBroken)(fn)

        @functools.wraps(fn)
        def guarded(data, cmd, offset, value):
            try:
                return contracted(data, cmd, offset, value)
            except documented:
                raise
            except Exception as e:      # noqa
                s = _installed["validators"]
                s.violate(f"C01/{framing}/validator-raises/{type(e).__name__}",
                          f"{name}({bytes(data).hex()[:80]}, cmd={cmd}, offset={offset}, value={value}) raised {type(e).__name__}: {e}",
                          {"framing": framing, "data": bytes(data).hex(), "cmd": cmd, "offset": offset, "value": value})
                raise
        return guarded

    rtu = make("rtu", g.modbus.validate_modbus_rtu_response, "validate_modbus_rtu_response")
    tcp = make("tcp", g.modbus.validate_modbus_tcp_response, "validate_modbus_tcp_response")
    g.modbus.validate_modbus_rtu_response = rtu
    g.protocol.validate_modbus_rtu_response = rtu
    g.modbus.validate_modbus_tcp_response = tcp
    g.protocol.validate_modbus_tcp_response = tcp

    orig_aa55 = g.protocol.Aa55ProtocolCommand._validate_aa55_response

    def aa55_accepted_only_if_well_formed(data, response_type, result):
        s = _installed["validators"]
        s.count("contract_eval_validate_aa55_response")
        if result is True:
            why = rc.c01_accept_ok({"framing": "aa55", "rtype": response_type}, bytes(data))
            if why:
                s.violate("C01/aa55/accepted-invalid-frame",
                          f"_validate_aa55_response({bytes(data).hex()[:80]}, {response_type}) returned True: {why}",
                          {"framing": "aa55", "data": bytes(data).hex(), "rtype": response_type})
        elif result is not False:
            s.violate("C01/aa55/undocumented-result", f"_validate_aa55_response returned {result!r}",
                      {"framing": "aa55", "data": bytes(data).hex(), "rtype": response_type})
        return True

    aa55_c = icontract.ensure(aa55_accepted_only_if_well_formed, error=ContractBroken)(orig_aa55)

    def aa55_guarded(data, response_type):
        try:
            return aa55_c(data, response_type)
        except documented:
            raise
        except Exception as e:      # noqa
            s = _installed["validators"]
            s.violate(f"C01/aa55/validator-raises/{type(e).__name__}",
                      f"_validate_aa55_response({bytes(data).hex()[:80]}, {response_type}) raised {type(e).__name__}: {e}",
                      {"framing": "aa55", "data": bytes(data).hex(), "rtype": response_type})
            raise

    g.protocol.Aa55ProtocolCommand._validate_aa55_response = staticmethod(aa55_guarded)


def install_request_contracts(sink: Sink):
    """C03: every frame produced by the request builders / command constructors parses back (independent decoder)
    to exactly the arguments it was built from."""
    if "requests" in _installed:
        _installed["requests"].part = sink.part
        return
    _installed["requests"] = sink
    g = env.goodwe()

    def check(framing, kind, frame, comm, reg, val, name):
        s = _installed["requests"]
        s.count(f"contract_eval_{name}")
        try:
            if framing == "rtu":
                p = rc.parse_rtu_request(frame)
            else:
                p = rc.parse_tcp_request(frame)
        except rc.BadFrame as b:
            s.violate(f"C03/{framing}/undecodable-request", f"{name}(comm={comm}, reg={reg}, {val!r}) -> {frame.hex()[:80]}: {b}",
                      {"builder": name, "comm": comm, "reg": reg, "val": val if not isinstance(val, bytes) else val.hex()})
            return True
        want = {"kind": kind, "comm": comm & 0xFF, "reg": reg & 0xFFFF}
        if kind == "read":
            want["count"] = val
        elif kind == "write":
            want["value"] = rc.s16(val)
        else:
            want["count"], want["data"] = len(val) // 2, bytes(val)
        diff = {k: (p.get(k), v) for k, v in want.items() if p.get(k) != v}
        if diff:
            s.violate(f"C03/{framing}/request-carries-wrong-arguments",
                      f"{name}(comm={comm}, reg={reg}, {val!r}) decodes to {diff} (decoded, intended)",
                      {"builder": name, "comm": comm, "reg": reg, "val": val if not isinstance(val, bytes) else val.hex(),
                       "frame": frame.hex()})
        return True

    kinds = {rc.READ: "read", rc.WRITE: "write", rc.WRITE_MULTI: "multi"}

    def rtu_post(comm_addr, cmd, offset, value, result):
        return check("rtu", kinds.get(cmd), result, comm_addr, offset, value, "create_modbus_rtu_request")

    def tcp_post(comm_addr, cmd, offset, value, result):
        return check("tcp", kinds.get(cmd), result, comm_addr, offset, value, "create_modbus_tcp_request")

    def rtu_multi_post(comm_addr, cmd, offset, values, result):
        return check("rtu", kinds.get(cmd), result, comm_addr, offset, values, "create_modbus_rtu_multi_request")

    def tcp_multi_post(comm_addr, cmd, offset, values, result):
        return check("tcp", kinds.get(cmd), result, comm_addr, offset, values, "create_modbus_tcp_multi_request")

    for name, post in (("create_modbus_rtu_request", rtu_post), ("create_modbus_tcp_request", tcp_post),
                       ("create_modbus_rtu_multi_request", rtu_multi_post), ("create_modbus_tcp_multi_request", tcp_multi_post)):
        fn = icontract.ensure(post, error=ContractBroken)(getattr(g.modbus, name))
        setattr(g.modbus, name, fn)
        setattr(g.protocol, name, fn)


def evaluations(part, prefix="contract_eval_"):
    return {k: v for k, v in part.counters.items() if k.startswith(prefix)}
