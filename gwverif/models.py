"""Model / firmware configuration generators for the simulated inverters (DESIGN.md 2.4)."""
from __future__ import annotations

import random

from . import sims

# address ranges an inverter may refuse with ILLEGAL DATA ADDRESS, by block name
ET_BLOCKS = {
    "battery": [(37000, 37023)],
    "battery2": [(39000, 39021)],
    "meter_ext2": [(36058, 36124)],          # read 36000 x125 refused, x58 served
    "meter_ext": [(36045, 36057)],           # read 36000 x58 refused, x45 served
    "mppt": [(35301, 35361)],
    "eco_v2": [(47545, 47571)],              # ARM fw 19 settings (probe 47547 x6)
    "peak_shaving": [(47589, 47594)],        # ARM fw 22 settings (probe 47589 x6)
}
DT_BLOCKS = {"meter": [(30195, 30209)], "meter_version": [(30063, 30082)]}     # (meter data block; meter version/serial probe of read_device_info)


def serial_with(tag: str, prefix="9") -> str:
    """16-character serial number containing the model tag (e.g. '9010KETU000W0000')."""
    body = f"{prefix}010K{tag}"
    return (body + "000W0000")[:16].ljust(16, "0")


def fill_random(sim, lo, hi, rnd, style="random"):
    if style == "smallconst":
        # the whole range holds one small integer constant taken from the source under test (boundary-seeking, see env.harvest_ints)
        from . import env
        hv = [v for v in env.harvest_ints() if abs(v) <= 1100]
        v = rnd.choice(hv) & 0xFFFF
        wide = rnd.random() < 0.5           # as 16-bit words, or as 32-bit values (sign-extended high word first)
        for k, a in enumerate(range(lo, hi + 1)):
            sim.regs[a] = v if not wide or k % 2 else (0xFFFF if v & 0x8000 else 0)
        return
    for a in range(lo, hi + 1):
        if style == "zero":
            v = 0
        elif style == "ff":
            v = 0xFFFF
        elif style == "sentinel":
            v = rnd.choice((0, 0xFFFF, 0x7FFF, 0x8000, 1, 0xFFFE))
        else:
            v = rnd.randrange(65536) if rnd.random() < 0.7 else rnd.choice((0, 0xFFFF, 0x7FFF, 0x8000, 1))
        sim.regs[a] = v


def et_sim(owner="inv0", tag="ETU", rated=10000, refused_blocks=(), battery_mode=1, rnd=None, style="random",
           serial=None):
    regs = sims.et_device_info(serial or serial_with(tag), rated)
    refused = [r for b in refused_blocks for r in ET_BLOCKS[b]]
    sim = sims.ModbusSim(owner, regs=regs, refused=refused)
    if rnd is not None:
        for lo, hi in ((35100, 35224), (36000, 36124), (37000, 37023), (39000, 39021), (35301, 35361)):
            fill_random(sim, lo, hi, rnd, style)
        # a decodable clock, otherwise every read reports timestamp None (legitimate but uninteresting)
        sim.set_bytes(35100, bytes([24, 5, 17, 12, 30, 15]))
    sim.regs[35184] = battery_mode
    sim.regs[47000] = sim.regs.get(47000, 0)
    return sim


def dt_sim(owner="inv0", tag="DTU", refused_blocks=(), rnd=None, style="random", serial=None):
    regs = sims.dt_device_info(serial or serial_with(tag))
    refused = [r for b in refused_blocks for r in DT_BLOCKS[b]]
    sim = sims.ModbusSim(owner, regs=regs, refused=refused)
    if rnd is not None:
        for lo, hi in ((30100, 30172), (30195, 30209)):
            fill_random(sim, lo, hi, rnd, style)
        sim.set_bytes(30100, bytes([24, 5, 17, 12, 30, 15]))
    sim.set_bytes(40313, bytes([24, 5, 17, 12, 30, 15]))
    return sim


def es_sim(owner="inv0", tag="ESU", fw=b"02525", rnd=None, style="random", runtime_len=142, settings_len=86, serial=None):
    info = sims.es_device_info(serial=serial or serial_with(tag, "9"), fw=fw)
    rt = bytes(runtime_len)
    st = bytes(settings_len)
    if rnd is not None:
        if style == "zero":
            pass
        elif style == "ff":
            rt, st = b"\xff" * runtime_len, b"\xff" * settings_len
        else:
            rt = bytes(rnd.randrange(256) if rnd.random() < 0.8 else rnd.choice((0, 255, 127, 128)) for _ in range(runtime_len))
            st = bytes(rnd.randrange(256) if rnd.random() < 0.8 else rnd.choice((0, 255, 127, 128)) for _ in range(settings_len))
    return sims.Aa55Sim(owner, info=info, runtime=rt, settings=st)


def family_sim(fam, owner="inv0", **kw):
    return {"ET": et_sim, "DT": dt_sim, "ES": es_sim}[fam](owner, **kw)


def family_cls(g, fam):
    return {"ET": g.ET, "DT": g.DT, "ES": g.ES}[fam]
