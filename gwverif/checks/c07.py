"""C07  A response split into two fragments is reassembled exactly (fault_enumeration)."""
from __future__ import annotations

import random

from .. import engine
from .. import refcodec as rc
from ..peers import ScriptedPeer, default_payload
from ..runner import Part

PROPERTY = "C07"
LEVEL = "fault_enumeration"
RULE = ("one read request; the peer answers transmission 1 in two pieces: every split point of the frame x delay of the "
        "second piece {0, T/2, 0.99T, 1.5T} x second piece {exact remainder, +1 byte, -1 byte, same length corrupted, "
        "full answer to another request, same-length remainder of another response, nothing (lone fragment)} x "
        "what answers transmission 2 {valid frame, remainder only} x {udp-rtu, udp-aa55, tcp} x keep-alive; payloads made of AA 55 pairs; the fragmented answer belonging to the retransmission that follows a late corrupted answer; a second caller entering while the first waits for its remainder; distinct = "
        "distinct (framing, keep-alive, count, split point class, second-piece kind (incl. a foreign datagram BETWEEN the fragment and its real remainder on the datagram framings), delay, outcome, #tx) tuples")
ASSUMPTIONS = [
    "pieces sent for one transmission are tagged by the peer; a successful result is compared byte-wise with them",
    "clause (a) is asserted when the first piece holds the header (5 / 9 / 9 bytes) and the exact remainder arrives "
    "before one timeout has passed since the transmission; when the first piece itself is late, 'within the timeout' for the "
    "second piece is counted from the arrival of the first (the anchored mechanism: the timer is re-armed with the full "
    "timeout when a fragment is stored)",
    "Modbus/TCP has no checksum: a same-length corrupted remainder may legitimately be accepted there (the property "
    "restricts clause (b) to the checksummed framings)",
]
MUST = ["retransmission_answered_in_complementary_pieces", "late_remainder_between_pieces_of_next_answer", "split_answers_with_wrong_mbap_length", "payloads_resembling_frame_headers", "reassembled_while_another_caller_queued", "reassembled_after_corrupt_answer", "reassembled_rtu", "reassembled_tcp", "reassembled_aa55", "partial_branch", "leftover_cleared", "late_second_piece",
        "wrong_second_piece_refused", "foreign_datagram_between_fragments", "both_pieces_delayed", "two_objects_fragmented", "other_timeouts", "aa55_checksum_wraps"]
EXHAUSTIVE = {"quick": False, "thorough": True}
EPS = 1e-6
KINDS = ["exact", "plus1", "minus1", "corrupt", "crcswap", "other_answer", "other_remainder", "none", "plus1_then_exact", "junk_then_exact"]
HEADER = {"rtu": 5, "tcp": 9, "aa55": 9}


def aa55_payload(req, n):
    """register payload full of the frame-header byte pair AA 55 (every even split lands in front of one)"""
    return (b"\xaa\x55" * req["count"])[:2 * req["count"]]


def zero_payload(req, n):
    """all registers zero (an idle inverter at night): every remainder starts with 00 00 .."""
    return bytes(2 * req["count"])


def mbap_payload(req, n):
    """register contents that look like the start of a Modbus/TCP frame (transaction id, protocol id 0, length, unit, function 3)"""
    return (bytes.fromhex("0009000000070103") * (req["count"] // 4 + 1))[:2 * req["count"]]


class FragPeer(ScriptedPeer):
    """Transmission 1 answered in two scripted pieces; transmission 2 per `second_tx`; later ones validly."""

    def __init__(self, sc):
        super().__init__(engine.HOST, sc["framing"], [], sc["T"], after="now",
                         payload_fn={"aa55": aa55_payload, "zero": zero_payload, "mbap": mbap_payload}.get(sc.get("payload"), default_payload),
                         aa55_payload=(b"\xaa\x55" * 128)[:sc.get("aa55_len", 40)] if sc.get("payload") == "aa55" else
                         b"\xff" * sc.get("aa55_len", 40) if sc.get("payload") == "ff" else
                         bytes((i * 7 + 1) & 0xFF for i in range(sc.get("aa55_len", 40))))
        self.sc = sc
        self.v1 = None
        self.other = None

    def act(self, s, req, n, sym):
        sc = self.sc
        T = sc["T"]
        v = self.valid(req, n)
        if sc.get("mbap_len") is not None and self.framing == "tcp":
            # GoodWe firmware quirk (accepted by the library and pinned by its tests when unsplit): the MBAP length field of the answer
            # is a copy of the request's (6), not the number of bytes that follow
            v = v[:4] + int(sc["mbap_len"]).to_bytes(2, "big") + v[6:]
        self.fulls = getattr(self, "fulls", []) + [v]
        pre = sc.get("pre")
        if pre and n == 1:          # transmission 1 is answered by a corrupted frame half a timeout late -> immediate retransmission
            b = bytearray(v)
            b[-1] ^= 0x55
            return self.send(s, bytes(b), 0.5 * T, n, 1)
        if n == (2 if pre else 1):
            self.v1 = v
            k = sc["split"]
            first, rest = v[:k], v[k:]
            other = self.other = self.other_frame(req, n)
            kind = sc["kind"]
            second = {"exact": rest, "plus1": rest + b"\x00", "minus1": rest[:-1],
                      "corrupt": bytes([rest[0] ^ 0x01]) + rest[1:] if rest else b"",
                      # (the remainder with its last two bytes exchanged; when the checksum bytes are equal: last byte altered)
                      "crcswap": (rest[:-2] + rest[-1:] + rest[-2:-1] if len(rest) >= 2 and rest[-1] != rest[-2] else rest[:-1] + bytes([rest[-1] ^ 0x10])) if rest else b"",
                      "other_answer": other, "other_remainder": other[k:], "none": None,
                      "plus1_then_exact": rest + b"\x00",
                      "junk_then_exact": b"\xde\xad\xbe\xef" if len(rest) != 4 else b"\xde\xad\xbe"}[kind]
            d1 = sc.get("first_delay", 0.0)
            self.send(s, first, d1, n, 1)
            if second is not None and len(second) > 0:
                self.send(s, second, d1 + sc["delay"], n, 2)
            if kind.endswith("_then_exact") and rest:      # ... and then, still inside the timeout, the real remainder
                self.send(s, rest, d1 + sc["delay"] + 0.2 * T, n, 3)
            return
        if n == 2 and sc.get("second_tx") == "remainder" and not pre:
            return self.send(s, self.v1[sc["split"]:], 0, n, 1)
        if n == 2 and sc.get("second_tx") == "split_c" and not pre:
            # answer 1 was only a first fragment of k bytes; the retransmission is answered in two pieces of which the FIRST is exactly as
            # long as what the stale fragment was short of (L - k bytes), the rest 0.3 T later
            k2 = len(v) - sc["split"]
            if 0 < k2 < len(v):
                self.send(s, v[:k2], 0, n, 1)
                return self.send(s, v[k2:], 0.3 * T, n, 2)
            return self.send(s, v, 0, n, 1)
        if n == 2 and sc.get("second_tx") == "split" and not pre:
            # the retransmission is answered in two pieces as well (other register contents by now); the LATE remainder of answer 1
            # lands between them
            k = sc["split"]
            self.send(s, v[:k], 0, n, 1)
            return self.send(s, v[k:], 0.7 * T, n, 2)
        return self.send(s, v, 0, n, 1)

    def other_frame(self, req, n):
        if self.framing == "aa55":
            return rc.aa55_response("0186", bytes((i * 13 + 5) & 0xFF for i in range(len(self.aa55_payload))))
        r2 = dict(req, reg=(req["reg"] + 7) & 0xFFFF)
        pl = default_payload(r2, n + 50)
        return rc.rtu_response(r2, pl) if self.framing == "rtu" else rc.tcp_response(r2, pl)


def scenario(framing, ka, T, R, count, split, kind, delay, second_tx="now", aa55_len=40, pre=None):
    transport = "tcp" if framing == "tcp" else "udp"
    step = ["aa55", "010600", "0186"] if framing == "aa55" else ["read", 300, count]
    return {"transport": transport, "framing": framing, "keep_alive": ka, "T": T, "R": R, "count": count,
            "split": split, "kind": kind, "delay": delay, "second_tx": second_tx, "aa55_len": aa55_len, "pre": pre,
            "tasks": [{"start": 0.0, "steps": [step]}]}


def check_run(sc, run, part: Part):
    f, T = sc["framing"], sc["T"]
    out = []
    if run.stop:
        return [(f"C07/{f}/hang", run.stop)]
    rec = run.calls[0]
    txs = [e for e in run.events if e[1] == "tx"]
    if sc.get("pre") and run.peer.v1 is None:
        return [(f"C07/{f}/no-retransmission-after-corrupt-answer", f"{len(txs)} transmissions, outcome {rec['outcome']}")]
    pieces = {}
    for e in run.events:
        if e[1] == "psend":
            pieces.setdefault(e[3], []).append(e[5])
    peer = run.peer
    v1 = peer.v1
    header_ok = HEADER[f] <= sc["split"] < len(v1)
    if any(e[1] == "rx" and len(e[4]) == sc["split"] for e in run.events) and sc["split"] < len(v1):
        part.count("partial_branch")
    if rec["outcome"] == "ok":
        raw = bytes.fromhex(rec["result"]["raw"])
        # (c) never combines bytes sent for different transmissions: raw = contiguous pieces of ONE transmission
        single = False
        for n, ps in pieces.items():
            for i in range(len(ps)):
                acc = b""
                for j in range(i, len(ps)):
                    acc += ps[j]
                    if acc == raw:
                        single = True
        # (a result that is byte for byte the unsplit answer to one of the transmissions is that answer, whichever datagrams carried
        #  the bytes: a one-byte remainder of answer 1 can coincide with the last checksum byte of answer 2)
        if not single and raw not in getattr(peer, "fulls", []):
            out.append((f"C07/{f}/combined-across-transmissions",
                        f"result {raw.hex()[:60]}.. is not a contiguous run of pieces sent for one transmission "
                        f"(split {sc['split']}, second piece '{sc['kind']}', second tx '{sc['second_tx']}')"))
        # (b) checksummed framings: success never built from the first fragment + something else
        if f in ("rtu", "aa55") and sc["kind"] != "exact":
            k = sc["split"]
            # (when the split falls right behind the header, header + remainder of another conforming response IS
            #  that other conforming response byte for byte - the wire carries no correlation id - so it is allowed)
            if raw[:k] == v1[:k] and raw != v1 and raw != peer.other and 0 < k < len(v1) and raw not in getattr(peer, "fulls", []) and \
                    not any(raw == p for ps in pieces.values() for p in ps):
                out.append((f"C07/{f}/fragment-plus-foreign-data-accepted",
                            f"result starts with the first fragment but is not the unsplit frame: {raw.hex()[:80]}"))
            elif sc["kind"].endswith("_then_exact") and raw == v1 and 0 < k < len(v1) and \
                    not any(raw == p for ps in pieces.values() for p in ps):
                out.append((f"C07/{f}/fragment-kept-across-foreign-data",
                            f"first fragment ({k} bytes), then a datagram that is not its remainder, then the remainder: the result is "
                            f"the frame glued from the first and the third datagram ({len(txs)} transmissions)"))
            elif header_ok and sc["kind"].endswith("_then_exact"):
                part.count("foreign_datagram_between_fragments")
            elif header_ok and sc["kind"] in ("plus1", "minus1", "corrupt", "crcswap", "other_remainder"):
                part.count("wrong_second_piece_refused")
    # (a) exact remainder in time => success, one transmission, exactly the unsplit bytes
    want_tx = 2 if sc.get("pre") else 1
    if sc["kind"] == "exact" and header_ok and sc["delay"] < T - EPS:
        if rec["outcome"] != "ok" or len(txs) != want_tx or bytes.fromhex(rec["result"]["raw"]) != v1:
            got = rec["result"]["raw"][:60] if rec["outcome"] == "ok" else rec["outcome"]
            out.append((f"C07/{f}/exact-fragments-not-reassembled",
                        f"count={sc['count']} split={sc['split']} delay={sc['delay']} keep_alive={sc['keep_alive']} "
                        f"{'(first piece ' + str(sc['first_delay']) + ' after the request, second ' + str(sc['delay']) + ' after the first) ' if sc.get('first_delay') else ''}"
                        f"{'(after a late corrupted answer to transmission 1) ' if sc.get('pre') else ''}: "
                        f"{len(txs)} transmissions, outcome {got}"))
        else:
            part.count("reassembled_" + f)
            if sc.get("first_delay"):
                part.count("both_pieces_delayed")
            if sc.get("pre"):
                part.count("reassembled_after_corrupt_answer")
    if sc["second_tx"] == "split_c" and HEADER[f] <= sc["split"] < len(v1) and HEADER[f] <= len(v1) - sc["split"]:
        # the retransmission's answer arrived completely and in time (two pieces, 0.3 T apart): success on transmission 2 with those bytes
        fulls = getattr(peer, "fulls", [])
        if rec["outcome"] != "ok" or len(txs) != 2 or bytes.fromhex(rec["result"]["raw"]) not in fulls[1:2]:
            got = rec["result"]["raw"][:60] if rec["outcome"] == "ok" else rec["outcome"]
            out.append((f"C07/{f}/exact-fragments-not-reassembled",
                        f"count={sc['count']} keep_alive={sc['keep_alive']}: transmission 1 answered by a lone first fragment of {sc['split']} bytes, the retransmission by "
                        f"two pieces ({len(v1) - sc['split']} + {sc['split']} bytes, 0.3 T apart): {len(txs)} transmissions, outcome {got}"))
    if sc["kind"] == "exact" and sc["delay"] > T:
        part.count("late_second_piece")
    if sc["second_tx"] == "remainder" and len(txs) >= 2:
        part.count("leftover_cleared")
    return out


def run_case(sc, part):
    run = engine.run_scenario(sc, peer_factory=FragPeer, quiesce=False)
    part.evaluations += 1
    vs = check_run(sc, run, part)
    k, L = sc["split"], len(run.peer.v1 or b"")
    cls = "lt-header" if k < HEADER[sc["framing"]] else ("last" if k >= L - 2 else "mid")
    part.see(repr((sc["framing"], sc["keep_alive"], sc["count"], cls, sc["kind"], sc["delay"], sc["second_tx"],
                   run.calls[0]["outcome"] if run.calls else None, len([e for e in run.events if e[1] == "tx"]))))
    for key, msg in vs:
        part.violate(key, msg, {"scenario": sc, "calls": run.calls, "events": engine.jsonable_events(run.events, 80)})
    if part.evaluations % 997 == 5:
        part.sample({"scenario": sc, "outcome": run.calls[0]["outcome"],
                     "wire": [[e[0], e[1], e[4].hex()[:40]] for e in run.events if e[1] in ("tx", "rx")][:10]})
    return vs


def concurrent_case(framing, ka, T, count, k, d, b_start, part):
    """caller A's answer arrives in two pieces (second after d); caller B enters while A waits for the remainder: A must still be
    served from its two pieces without retransmission, then B."""
    transport = "tcp" if framing == "tcp" else "udp"
    sc = {"transport": transport, "framing": framing, "keep_alive": ka, "T": T, "R": 2,
          "by_reg": {300: [["frag2", k, d]], 500: ["now"]}, "after": "now",
          "tasks": [{"start": 0.0, "steps": [["read", 300, count]]}, {"start": b_start, "steps": [["read", 500, 2]]}]}
    run = engine.run_scenario(sc, quiesce=False)
    part.evaluations += 1
    part.see(f"concurrent|{framing}|{ka}|{k}|{d}|{b_start}")
    vs = []
    if run.stop:
        vs.append((f"C07/{framing}/hang", run.stop))
    else:
        a = [c for c in run.calls if c["step"][1] == 300][0]
        atx = [e for e in run.events if e[1] == "tx" and int.from_bytes(e[4][(8 if framing == "tcp" else 2):(10 if framing == "tcp" else 4)], "big") == 300]
        if a["outcome"] != "ok" or len(atx) != 1:
            vs.append((f"C07/{framing}/exact-fragments-not-reassembled",
                       f"two-piece answer (split {k}, second piece after {d}) with another caller entering at {b_start}: caller A ended "
                       f"{a['outcome']} after {len(atx)} transmissions"))
        else:
            part.count("reassembled_while_another_caller_queued")
    for key, msg in vs:
        part.violate(key, msg, {"concurrent": True, "args": [framing, ka, T, count, k, d, b_start]})


def two_objects_case(fam, ka, k, gap, off_b, part):
    """two inverter OBJECTS of one family, each with its own inverter answering in two pieces, polled at the same time: each must
    reassemble its own answer (one transmission per request, own values)"""
    import asyncio
    from .. import env, models
    g = env.goodwe()
    import random as _r
    sa, sb = models.family_sim(fam, "invA", rnd=_r.Random(1), style="random"), models.family_sim(fam, "invB", rnd=_r.Random(2), style="random")
    for sm in (sa, sb):
        sm.delay, sm.frag = 0.1, (k, gap)
    out = {}

    async def flow(loop):
        A, B = models.family_cls(g, fam)("invA", 8899, 0, 1, 2), models.family_cls(g, fam)("invB", 8899, 0, 1, 2)
        for inv in (A, B):
            inv.set_keep_alive(ka)
            await inv.read_device_info()
        na, nb = len(sa.log) + len(getattr(sa, "aa55_log", [])), len(sb.log) + len(getattr(sb, "aa55_log", []))

        async def poll(inv, name, start):
            await asyncio.sleep(start)
            try:
                out[name] = await inv.read_runtime_data()
            except Exception as e:      # noqa
                out[name] = type(e).__name__
        await asyncio.gather(poll(A, "A", 0.0), poll(B, "B", off_b))
        out["ntx"] = (len(sa.log) + len(getattr(sa, "aa55_log", [])) - na, len(sb.log) + len(getattr(sb, "aa55_log", [])) - nb)
        # reference: the same polls one after the other
        out["refA"] = await A.read_runtime_data()
        out["refB"] = await B.read_runtime_data()
        out["nref"] = (len(sa.log) + len(getattr(sa, "aa55_log", [])) - na - out["ntx"][0], len(sb.log) + len(getattr(sb, "aa55_log", [])) - nb - out["ntx"][1])

    run = engine.run_custom({("invA", 8899): sa, ("invB", 8899): sb}, flow, vtime_cap=600, tx_cap=600)
    part.evaluations += 1
    part.see(f"two-objects|{fam}|{ka}|{k}|{gap}|{off_b}")
    f = "aa55" if fam == "ES" else "rtu"
    case = {"two_objects": True, "args": [fam, ka, k, gap, off_b]}
    if run.stop or run.error is not None:
        part.violate(f"C07/{f}/hang", f"two {fam} objects, fragmented answers: {run.stop or repr(run.error)}", case)
        return
    for name, ref, i in (("A", "refA", 0), ("B", "refB", 1)):
        if not isinstance(out.get(name), dict) or out["ntx"][i] != out["nref"][i] or \
                {k_: str(v) for k_, v in out[name].items() if k_ != "timestamp"} != {k_: str(v) for k_, v in out[ref].items() if k_ != "timestamp"}:
            part.violate(f"C07/{f}/exact-fragments-not-reassembled",
                         f"two {fam} inverter objects polled at the same time, each inverter answering in two pieces (split {k}, {gap} s apart, B starts "
                         f"{off_b} s after A): object {name} needed {out['ntx'][i]} transmissions (alone: {out['nref'][i]}) / returned "
                         f"{'other values' if isinstance(out.get(name), dict) else out.get(name)}", case)
            return
    part.count("two_objects_fragmented")


def frame_len(framing, count, aa55_len):
    return {"rtu": 7 + 2 * count, "tcp": 9 + 2 * count, "aa55": 9 + aa55_len}[framing]


def plan(tier, seed):
    specs = []
    counts = [1, 2, 3, 62, 125] if tier == "quick" else list(range(1, 126))
    for framing in ("rtu", "tcp", "aa55"):
        for ka in (False, True):
            if framing == "aa55":
                for ln in ([0, 1, 40, 142, 255] if tier == "quick" else [0, 1, 2, 5, 40, 86, 142, 200, 254, 255]):
                    specs.append({"framing": framing, "ka": ka, "counts": [0], "aa55_len": ln, "stride": 1})
            elif tier == "quick":
                specs.append({"framing": framing, "ka": ka, "counts": [1, 2, 3], "aa55_len": 0, "stride": 1})
                specs.append({"framing": framing, "ka": ka, "counts": [62], "aa55_len": 0, "stride": 5})
                specs.append({"framing": framing, "ka": ka, "counts": [125], "aa55_len": 0, "stride": 9})
            else:
                for lo in range(0, len(counts), 8):
                    specs.append({"framing": framing, "ka": ka, "counts": counts[lo:lo + 8], "aa55_len": 0, "stride": 1})
    return specs


def run_shard(spec):
    part = Part()
    f = spec["framing"]
    T = 1
    if spec["counts"] and spec["counts"][0] in (1, 62) or (f == "aa55" and spec.get("aa55_len") in (0, 40)):
        for fam in (("ES",) if f == "aa55" else ("ET", "DT") if f == "rtu" else ()):
            for k, gap, off_b in ((9, 0.04, 0.12), (9, 0.04, 0.0), (12, 0.3, 0.2), (20, 0.05, 0.11)):
                two_objects_case(fam, spec["ka"], k, gap, off_b, part)
    if f != "aa55" and spec["counts"] and spec["counts"][0] in (1, 62):
        for count in (2, 10):
            L = frame_len(f, count, 0)
            for k in range(HEADER[f], L):
                for d in (0.3, 0.6):
                    for b_start in (0.0, 0.1, d / 2, d - 0.01):
                        concurrent_case(f, spec["ka"], T, count, k, d, b_start, part)
    for count in spec["counts"]:
        L = frame_len(f, count, spec["aa55_len"])
        splits = sorted(set(list(range(1, L, spec["stride"])) + [1, 2, 3, 4, 5, 6, 8, 9, 10, L - 3, L - 2, L - 1]))
        splits = [k for k in splits if 0 < k < L]
        for k in splits:
            for kind in KINDS:
                if kind.endswith("_then_exact") and f == "tcp":
                    continue        # (a byte stream has no datagram boundaries: junk followed by the remainder is just a longer wrong piece)
                for delay in ((0.0, 0.5, 0.99, 1.5) if kind in ("exact", "corrupt") else (0.0, 0.5)):
                    for second_tx in (("now", "remainder") if (kind == "none" or delay > 1) else ("now",)):
                        sc = scenario(f, spec["ka"], T, 2, count, k, kind, delay, second_tx, spec["aa55_len"])
                        run_case(sc, part)
            if k in (HEADER[f], L - 1) or k % 11 == 0:
                # a configured timeout other than 1 s: second piece after 0.7 T (T = 3 -> 2.1 s; T = 0.3 -> 0.21 s)
                for T_ in (3, 0.3):
                    sc = scenario(f, spec["ka"], T_, 2, count, k, "exact", round(0.7 * T_, 6), "now", spec["aa55_len"])
                    run_case(sc, part)
                    part.count("other_timeouts")
            if k in (HEADER[f], HEADER[f] + 2, L - 1) or k % 5 == 0:
                # both pieces delayed: the wait for the second piece is counted from the arrival of the first
                for d1, delay in ((0.6, 0.6), (0.9, 0.9), (0.3, 0.8)):
                    sc = scenario(f, spec["ka"], T, 2, count, k, "exact", delay, "now", spec["aa55_len"])
                    sc["first_delay"] = d1
                    run_case(sc, part)
            if f == "aa55" and spec["aa55_len"] >= 250 and (k in (HEADER[f], L - 1) or k % 37 == 0):
                # a payload of 0xFF bytes: the frame's byte sum exceeds 16 bits (the checksum wraps around)
                for delay in (0.0, 0.5):
                    sc = scenario(f, spec["ka"], T, 2, count, k, "exact", delay, "now", spec["aa55_len"])
                    sc["payload"] = "ff"
                    run_case(sc, part)
                    part.count("aa55_checksum_wraps")
            if k >= 1:
                # payload made of AA 55 pairs: the remainder itself starts with the frame-header bytes (odd split points) or holds them
                # from its second byte on (even split points)
                for delay in (0.0, 0.5):
                    sc = scenario(f, spec["ka"], T, 2, count, k, "exact", delay, "now", spec["aa55_len"])
                    sc["payload"] = "aa55"
                    run_case(sc, part)
                    if f != "aa55":
                        # ... all-zero registers, and registers that look like the head of a Modbus/TCP frame
                        for pl_ in ("zero", "mbap"):
                            sc = scenario(f, spec["ka"], T, 2, count, k, "exact", delay, "now", spec["aa55_len"])
                            sc["payload"] = pl_
                            run_case(sc, part)
                            part.count("payloads_resembling_frame_headers")
            if HEADER[f] <= k < L and HEADER[f] <= L - k:
                # a lone first fragment, then the retransmission answered in two pieces, the first as long as the stale fragment's gap
                sc = scenario(f, spec["ka"], T, 2, count, k, "none", 0.0, "split_c", spec["aa55_len"])
                run_case(sc, part)
                part.count("retransmission_answered_in_complementary_pieces")
            if HEADER[f] <= k < L:
                # remainder of answer 1 delayed past the timeout (1.3 T); the retransmission's answer is split too, its second piece at
                # 1.7 T: the late piece of answer 1 arrives between the two pieces of answer 2 (same lengths, other contents)
                sc = scenario(f, spec["ka"], T, 2, count, k, "exact", 1.3, "split", spec["aa55_len"])
                run_case(sc, part)
                part.count("late_remainder_between_pieces_of_next_answer")
            if f == "tcp" and k >= HEADER[f]:
                # the answer carries the firmware's wrong MBAP length field (6, or 2 bytes too many): still reassembled exactly
                for mlen in (6, 5 + 2 * count):
                    for delay in (0.0, 0.5):
                        sc = scenario(f, spec["ka"], T, 2, count, k, "exact", delay, "now", spec["aa55_len"])
                        sc["mbap_len"] = mlen
                        run_case(sc, part)
                        part.count("split_answers_with_wrong_mbap_length")
            if f != "tcp" and (k in (HEADER[f], HEADER[f] + 1, L - 1) or k % 7 == 0):
                # the fragmented answer belongs to the RETRANSMISSION that follows a corrupted answer delivered at T/2
                for delay in (0.3, 0.7, 0.95):
                    run_case(scenario(f, spec["ka"], T, 2, count, k, "exact", delay, "now", spec["aa55_len"], pre="corrupt_late"), part)
    return part


def replay(case):
    part = Part()
    if case.get("two_objects"):
        two_objects_case(*case["args"], part)
        return [{"key": v["key"], "msg": v["msg"]} for v in part.violations]
    if case.get("concurrent"):
        concurrent_case(*case["args"], part)
        return [{"key": v["key"], "msg": v["msg"]} for v in part.violations]
    vs = run_case(case["scenario"], part)
    return [{"key": k, "msg": m} for k, m in vs]
