"""C15  read_runtime_data() keys equal sensors() for every model and capability set (exploration, finite space)."""
from __future__ import annotations

import random

from .. import configs, env
from ..runner import Part

PROPERTY = "C15"
LEVEL = "exploration"
RULE = ("configurations = serial-number model tags (quick: one per predicate-equivalence class over single-phase / 3-MPPT / "
        "4-MPPT / 2-battery / 745-platform; thorough: all 44 ET + 15 DT + 7 ES tags) x rated power {5, 20, 30 kW} x ALL subsets "
        "of refusable blocks {battery, battery2, extended meter, extended-2 meter, MPPT, eco-mode-v2, peak shaving | DT meter data, DT meter version} x "
        "battery present/absent (x ES firmware strings); per configuration read_device_info() and 3 x read_runtime_data() run "
        "through the real transport against a simulated inverter answering ILLEGAL DATA ADDRESS for the refused ranges, sensors() also "
        "queried right after read_device_info(), then further polls while the battery disappears / comes back; "
        "distinct = distinct configurations")
ASSUMPTIONS = ["an inverter refuses a read iff it touches a refused register range (address-range semantics of real firmware)",
               "which optional blocks a model offers is derived by the oracle from the tag lists of goodwe.model (data) and the "
               "thresholds stated in the property (15 kW / 25 kW)"]
MUST = ["served_block_refused_later", "firmware_version_variants", "battery_toggle_checked", "configs_run", "keys_equal_checked", "fallback_battery", "fallback_battery2", "fallback_meter_ext2", "fallback_meter_ext",
        "fallback_mppt", "first_call_failed_second_ok", "presence_checked", "dt_meter_refused", "es_configs", "slow_refusals_keepalive"]
EXHAUSTIVE = {"quick": False, "thorough": True}


def check_config(cfg, part, port=8899, slow=False):
    g = env.goodwe()
    toggled = {}

    async def battery_toggle(inv, sim, loop, res_):
        """history: the battery disappears for one poll and comes back (or the other way round)"""
        if cfg["family"] != "ET":
            return
        for mode in ((0, 2) if cfg["battery"] else (2, 0, 3)):
            sim.regs[35184] = mode
            try:
                data = await inv.read_runtime_data()
                toggled[mode] = (set(data), {s.id_ for s in inv.sensors()})
            except g.exceptions.RequestRejectedException:
                toggled[mode] = None

    # slow: firmware that takes 1.2 timeouts to refuse a block (so the retransmission is refused as well), kept-alive socket, retries 2
    res = configs.run_config(cfg, ncalls=3, port=port, extra=battery_toggle, **({"retries": 2, "keep_alive": True, "exc_delay": 1.2} if slow else {}))
    if slow:
        part.count("slow_refusals_keepalive")
    run = res["run"]
    part.evaluations += 1
    part.count("configs_run")
    fam = cfg["family"]
    case = {"config": cfg, "port": port, "slow": slow}
    tag = f"{fam} {cfg['tag']} rated={cfg['rated']} refused={cfg['refused']} battery={cfg['battery']} fw={cfg.get('fw_versions')}" + \
        (" (inverter refuses 1.2 timeouts late, keep-alive on, retries 2)" if slow else "")
    if run.stop or run.error is not None:
        part.violate(f"C15/{fam}/setup-failed", f"{tag}: {run.stop or repr(run.error)}", case)
        return
    calls = res["calls"]
    if calls[0][0] != "ok" and calls[1][0] != "ok":
        part.violate(f"C15/{fam}/not-ok-by-second-call", f"{tag}: call outcomes {[c[0] + ':' + str(c[1])[:30] if c[0] != 'ok' else 'ok' for c in calls]}", case)
    if calls[0][0] != "ok" and calls[1][0] == "ok":
        part.count("first_call_failed_second_ok")
    for i, c in enumerate(calls):
        if c[0] == "ok":
            part.count("keys_equal_checked")
            keys, ids = c[1], c[2]
            if keys != ids:
                part.violate(f"C15/{fam}/keys-differ-from-sensors",
                             f"{tag}: call {i + 1} returned {len(keys)} keys but sensors() lists {len(ids)} ids; only in result: "
                             f"{sorted(keys - ids)[:4]}, only in sensors(): {sorted(ids - keys)[:4]}", case)
        elif c[0] not in ("rejected",):
            part.violate(f"C15/{fam}/call-raised/{c[0]}", f"{tag}: call {i + 1} raised {c[0]}: {c[1]}", case)
    last_ok = next((c for c in reversed(calls) if c[0] == "ok"), None)
    if last_ok:
        for rid, want in configs.expected_presence(g, cfg).items():
            part.count("presence_checked")
            have = rid in last_ok[1]
            if have != bool(want):
                part.violate(f"C15/{fam}/{'supported-block-missing' if want else 'refused-block-present'}/{rid}",
                             f"{tag}: '{rid}' is {'present' if have else 'absent'} in the result although its block is "
                             f"{'offered and served' if want else 'refused or not offered'}", case)
    for mode, tv in toggled.items():
        if tv is None:
            continue
        keys, ids = tv
        part.count("battery_toggle_checked")
        if keys != ids:
            part.violate(f"C15/{fam}/keys-differ-from-sensors", f"{tag}: after battery_mode changed to {mode}: {len(keys)} keys vs {len(ids)} ids "
                         f"(only in result {sorted(keys - ids)[:3]}, only in sensors() {sorted(ids - keys)[:3]})", case)
        want = bool(mode) and "battery" not in cfg["refused"]
        if ("battery_soc" in keys) != want:
            part.violate(f"C15/{fam}/{'supported-block-missing' if want else 'refused-block-present'}/battery_soc",
                         f"{tag}: after battery_mode changed to {mode} 'battery_soc' is {'present' if 'battery_soc' in keys else 'absent'}", case)
    if fam == "ET":
        for b in cfg["refused"]:
            part.count({"battery": "fallback_battery", "battery2": "fallback_battery2", "meter_ext2": "fallback_meter_ext2",
                        "meter_ext": "fallback_meter_ext", "mppt": "fallback_mppt"}.get(b, "refused_" + b))
    elif fam == "DT" and cfg["refused"]:
        part.count("dt_meter_refused")
    elif fam == "ES":
        part.count("es_configs")
    part.see(repr(sorted(cfg.items())) + str(port))
    if part.evaluations % 311 == 5:
        part.sample({"config": cfg, "port": port, "calls": [c[0] for c in calls], "keys": [len(c[1]) if c[0] == "ok" else None for c in calls]})


REPRESENTATIVE = {"battery": "battery_soc", "battery2": "battery2_soc", "mppt": "pmppt1", "meter_ext": "meter_voltage1", "meter_ext2": "meter_e_total_exp1",
                  "meter": "meter_active_power"}


def refused_later(cfg, part, port, pick):
    """history: a block the inverter served in the first polls is refused (ILLEGAL DATA ADDRESS) from then on - a firmware update, a meter or battery
    that was unplugged: the next poll succeeds no later than its second call and every result again has exactly the keys of sensors()"""
    from .. import models
    g = env.goodwe()
    fam = cfg["family"]
    served = [b for b, rid in REPRESENTATIVE.items() if configs.expected_presence(g, cfg).get(rid)]
    if not served:
        return
    blk = served[pick % len(served)]
    later = []

    async def refuse_now(inv, sim, loop, res_):
        sim.refused = list(sim.refused) + [tuple(r) for r in (models.ET_BLOCKS if fam == "ET" else models.DT_BLOCKS)[blk]]
        for _ in range(3):
            try:
                data = await inv.read_runtime_data()
                later.append(("ok", set(data), {s.id_ for s in inv.sensors()}))
            except g.exceptions.RequestRejectedException as e:
                later.append(("rejected", e.message, None))
            except Exception as e:      # noqa
                later.append((type(e).__name__, str(e)[:100], None))
    res = configs.run_config(cfg, ncalls=2, port=port, extra=refuse_now)
    run = res["run"]
    part.evaluations += 1
    case = {"config": cfg, "port": port, "later": pick}
    tag = f"{fam} {cfg['tag']} rated={cfg['rated']} refused={cfg['refused']} battery={cfg['battery']} fw={cfg.get('fw_versions')} port {port}: block '{blk}' served in 2 polls, then refused"
    if run.stop or run.error is not None:
        part.violate(f"C15/{fam}/setup-failed", f"{tag}: {run.stop or repr(run.error)}", case)
        return
    if not any(c[0] == "ok" for c in res["calls"]) or REPRESENTATIVE[blk] not in next(c for c in reversed(res["calls"]) if c[0] == "ok")[1]:
        return          # (the block was not being served in the first place: nothing to learn from this history)
    if later[0][0] != "ok" and later[1][0] != "ok":
        part.violate(f"C15/{fam}/not-ok-by-second-call", f"{tag}: outcomes of the polls after that {[c[0] for c in later]}", case)
    for i, c in enumerate(later):
        if c[0] == "ok":
            if c[1] != c[2]:
                part.violate(f"C15/{fam}/keys-differ-from-sensors", f"{tag}: poll {i + 1} after that returned {len(c[1])} keys but sensors() lists {len(c[2])} ids; "
                             f"only in result: {sorted(c[1] - c[2])[:4]}, only in sensors(): {sorted(c[2] - c[1])[:4]}", case)
            elif i == len(later) - 1 and REPRESENTATIVE[blk] in c[1]:
                part.violate(f"C15/{fam}/refused-block-present/{REPRESENTATIVE[blk]}", f"{tag}: '{REPRESENTATIVE[blk]}' is still in the result of poll {i + 1} after that", case)
            else:
                part.count("served_block_refused_later")
        elif c[0] != "rejected":
            part.violate(f"C15/{fam}/call-raised/{c[0]}", f"{tag}: poll {i + 1} after that raised {c[0]}: {c[1]}", case)


def plan(tier, seed):
    g = env.goodwe()
    n = 16
    return [{"shard": i, "shards": n, "tier": tier} for i in range(n)]


def run_shard(spec):
    g = env.goodwe()
    part = Part()
    tier = spec["tier"]
    allc = list(configs.et_configs(g, tier)) + list(configs.dt_configs(g, tier)) + list(configs.es_configs(g, tier))
    fwv = configs.firmware_variants()          # firmware dimension: each configuration runs with one (DSP1, DSP2, ARM) version triple
    for i, cfg in enumerate(allc):
        if cfg["family"] in ("ET", "DT"):
            cfg = dict(cfg, fw_versions=fwv[(i * 5 + env.seed()) % len(fwv)])
            if cfg["fw_versions"] is not None:
                part.count("firmware_version_variants")

        if i % spec["shards"] != spec["shard"]:
            continue
        check_config(cfg, part, 8899)
        if cfg["family"] != "ES" and (tier != "quick" or i % 5 == 0):
            check_config(cfg, part, 502)
        if cfg["family"] != "ES" and cfg["refused"] and i % 9 == 4:
            check_config(cfg, part, 8899, slow=True)
        if cfg["family"] == "DT" or (cfg["family"] == "ET" and i % (4 if tier == "quick" else 2) == 1):
            refused_later(cfg, part, 8899 if i % 3 else 502, i // 4 + env.seed())
    return part


def replay(case):
    part = Part()
    if "later" in case:
        refused_later(case["config"], part, case["port"], case["later"])
        return [{"key": v["key"], "msg": v["msg"]} for v in part.violations]
    check_config(case["config"], part, case.get("port", 8899), slow=case.get("slow", False))
    return [{"key": v["key"], "msg": v["msg"]} for v in part.violations]
