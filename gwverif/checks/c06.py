"""C06  Concurrent callers are serialised and each gets the answer to its own request (exploration)."""
from __future__ import annotations

import itertools
import random

from .. import engine
from .. import refcodec as rc
from ..runner import Part

PROPERTY = "C06"
LEVEL = "exploration"
RULE = ("2..4 tasks share one inverter object, each reading its own register (count 2); the peer answers the n-th "
        "transmission per script over {drop, prompt, delayed-in-time, two fragments} and tags every payload with "
        "(register, n); scenarios = all scripts of depth 4 x start offsets x {udp, tcp} x keep-alive x retries for 2 "
        "callers (exhaustive), random for 3-4 callers (mixed register counts, random arrival phase, TCP close() calls); schedules without any loss (prompt, delayed-in-time or two-piece answers only) must serve every caller with one transmission; distinct = distinct interleavings, i.e. sequences of "
        "(task, event kind) over call/tx/rx/ret events")
ASSUMPTIONS = [
    "proviso of the property: each transmission is answered at most once and before its own timeout",
    "a caller that fails under loss is legitimate (the retry counter is shared by concurrent callers); only wire "
    "exclusion and own-answer-on-success are asserted",
    "concurrent close() calls are included for TCP only (TCP close() takes the request lock; UDP close() is "
    "documented as immediate and would abandon the in-flight transmission by design)",
]
MUST = ["lossless_with_fragments", "lossless_schedules", "contended_handover", "retry_while_queued", "fragment_while_queued", "own_answer_checked", "windows_checked"]
EXHAUSTIVE = {"quick": False, "thorough": False}
EPS = 1e-6
ALPHA = ["drop", "now", "intime", "frag2"]


def scenario(transport, ka, T, R, script, starts, close_at=None, cancel=None, counts=None):
    framing = "rtu" if transport == "udp" else "tcp"
    counts = counts or [2] * len(starts)
    tasks = [{"start": st, "steps": [["read", 1000 + 100 * i, counts[i]]]} for i, st in enumerate(starts)]
    if cancel is not None:          # (task index, time): the caller's task is cancelled from outside while it is queued
        tasks[cancel[0]]["cancel_at"] = cancel[1]
    if close_at is not None:
        tasks.append({"start": close_at, "steps": [["close"]]})
    return {"transport": transport, "framing": framing, "keep_alive": ka, "T": T, "R": R,
            "script": [s if isinstance(s, str) else list(s) for s in script], "after": "now", "tasks": tasks}


def check_run(sc, run, part: Part):
    tr, T = sc["transport"], sc["T"]
    out = []
    if run.stop:
        return [(f"C06/{tr}/hang", run.stop)]
    ev = run.events
    parse = rc.parse_rtu_request if sc["framing"] == "rtu" else rc.parse_tcp_request
    # transmissions in wire order; the peer's serial n is the order of arrival (no send errors in this check)
    txs = []
    for i, e in enumerate(ev):
        if e[1] == "tx":
            try:
                req = parse(e[4])
            except rc.BadFrame as b:
                out.append((f"C06/{tr}/unparsable-request", str(b)))
                continue
            txs.append({"i": i, "t": e[0], "reg": req["reg"], "n": len(txs) + 1})
    # answer pieces per n
    last_piece = {}
    for i, e in enumerate(ev):
        if e[1] == "psend":
            last_piece[e[3]] = (i, e[0], e[5])
    for tx in txs:
        lp = last_piece.get(tx["n"])
        end_i, end_t = None, tx["t"] + T
        if lp:
            # the rx event in which the client reads that last piece
            for j in range(lp[0], len(ev)):
                if ev[j][1] == "rx" and ev[j][4].endswith(lp[2]):      # (stream pieces may coalesce)
                    end_i = j
                    break
        tx["end_i"], tx["end_t"] = end_i, end_t
    for a in txs:
        for b in txs:
            if b["i"] <= a["i"] or b["reg"] == a["reg"]:
                continue
            inside = (b["i"] < a["end_i"]) if a["end_i"] is not None else (b["t"] < a["end_t"] - EPS)
            if inside:
                out.append((f"C06/{tr}/not-serialised",
                            f"request for register {b['reg']} transmitted at t={b['t']} while transmission #{a['n']} "
                            f"(register {a['reg']}, sent t={a['t']}) was still waiting for its answer"))
    part.count("windows_checked", len(txs))
    # own answer
    for rec in run.calls:
        if rec["step"][0] != "read":
            continue
        reg = rec["step"][1]
        mine = {t["n"] for t in txs if t["reg"] == reg}
        if rec["outcome"] == "ok":
            data = bytes.fromhex(rec["result"]["data"])
            if len(data) != 2 * rec["step"][2]:
                out.append((f"C06/{tr}/foreign-answer",
                            f"caller of register {reg} (count {rec['step'][2]}) received {len(data)} payload bytes"))
                continue
            got_reg, got_n = int.from_bytes(data[0:2], "big"), int.from_bytes(data[2:4], "big")
            part.count("own_answer_checked")
            if got_reg != reg or got_n not in mine:
                out.append((f"C06/{tr}/foreign-answer",
                            f"caller of register {reg} received the answer tagged (register {got_reg}, transmission "
                            f"#{got_n}); its own transmissions were {sorted(mine)}"))
        elif rec["outcome"] not in ("RequestFailedException", "RequestRejectedException", "CancelledError"):
            part.count("other_exception_type(handed to C09)")
    # a schedule without any loss (every transmission answered completely and in time) must serve every caller at once:
    # one transmission per caller, all succeed (C07 (a) / C05 under concurrency)
    syms = [e[4] if isinstance(e[4], str) else e[4][0] for e in ev if e[1] == "peer"]
    # (a two-piece answer whose second piece comes inside the timeout is complete and in time as well)
    lossless = syms and all(x in ("now", "delay", "intime", "frag2") for x in syms) and not any(c["step"][0] == "close" for c in run.calls)
    if lossless:
        part.count("lossless_schedules")
        if "frag2" in syms and len([c for c in run.calls if c["step"][0] == "read"]) > 1:
            part.count("lossless_with_fragments")
        for rec in run.calls:
            if rec["step"][0] != "read":
                continue
            mine = [t for t in txs if t["reg"] == rec["step"][1]]
            if rec["outcome"] != "ok" or len(mine) != 1:
                out.append((f"C06/{tr}/lossless-schedule-not-served",
                            f"no transmission was lost or late, yet the caller of register {rec['step'][1]} ended {rec['outcome']} after "
                            f"{len(mine)} transmissions"))
    # reach: contention
    calls = {c["id"]: c for c in run.calls if c["step"][0] == "read"}
    for tx in txs:
        queued = [c for c in calls.values() if c["step"][1] != tx["reg"] and c["t0"] <= tx["t"] and
                  (c["t1"] > tx["t"] or (c["t1"] == tx["t"])) and
                  not any(x["reg"] == c["step"][1] and x["i"] < tx["i"] for x in txs)]
        if queued:
            part.count("contended_handover")
            if sum(1 for x in txs if x["reg"] == tx["reg"] and x["i"] < tx["i"]):
                part.count("retry_while_queued")
    for e in ev:
        if e[1] == "peer" and (e[4] == "frag2" or (isinstance(e[4], list) and e[4][0] == "frag2")) and len(calls) > 1:
            part.count("fragment_while_queued")
    return out


def interleaving(run):
    return tuple((e[3] if e[1] in ("call", "ret") else None, e[1]) for e in run.events if e[1] in ("call", "ret", "tx", "rx"))


def run_case(sc, part):
    run = engine.run_scenario(sc, quiesce=False)
    part.evaluations += 1
    vs = check_run(sc, run, part)
    part.see(repr(interleaving(run)))
    for key, msg in vs:
        part.violate(key, msg, {"scenario": sc, "calls": run.calls, "events": engine.jsonable_events(run.events, 200)})
    if part.evaluations % 499 == 11:
        part.sample({"scenario": {k: sc[k] for k in ("transport", "keep_alive", "T", "R", "script")},
                     "starts": [t["start"] for t in sc["tasks"]],
                     "calls": [{k: c.get(k) for k in ("task", "outcome", "t0", "t1")} for c in run.calls],
                     "wire": [[e[0], e[1], e[4].hex()[:28]] for e in run.events if e[1] in ("tx", "rx")][:24]})
    return vs


OFFSETS = [0.0, 0.0001, 0.25, 0.5, 0.75, 1.0, 1.25, 1.5, 2.0, 2.25]


def plan(tier, seed):
    specs = []
    for transport in ("udp", "tcp"):
        for ka in (False, True):
            for R in ((1, 2) if tier == "quick" else (0, 1, 2, 3)):
                specs.append({"mode": "two", "transport": transport, "ka": ka, "R": R, "depth": 4 if tier == "quick" else 5})
    nrand = 16 if tier == "quick" else 128
    for i in range(nrand):
        specs.append({"mode": "random", "seed": f"{seed}:C06:{i}", "n": 700 if tier == "quick" else 6000})
    return specs


def run_shard(spec):
    part = Part()
    if spec["mode"] == "two":
        T = 1
        for script in itertools.product(ALPHA, repeat=spec["depth"]):
            for off in OFFSETS:
                sc = scenario(spec["transport"], spec["ka"], T, spec["R"], script, [0.0, off * T])
                run_case(sc, part)
    else:
        rnd = random.Random(spec["seed"])
        for _ in range(spec["n"]):
            transport = rnd.choice(("udp", "tcp"))
            T = rnd.choice((1, 1, 2, 0.5))
            R = rnd.choice((0, 1, 2, 3))
            k = rnd.choice((2, 3, 3, 4))
            starts = [rnd.choice(OFFSETS) * T * rnd.choice((1, 1, 2)) for _ in range(k)]
            script = []
            for _ in range(rnd.randrange(2, 10)):
                s = rnd.choice(ALPHA)
                if s == "intime":
                    s = ["delay", round(rnd.choice((0.1, 0.3, 0.5, 0.7, 0.9, 0.99)) * T, 6)]
                if s == "frag2":
                    s = ["frag2", rnd.choice((5, 6, 7, 8)) if transport == "udp" else rnd.choice((9, 10, 11, 12)),
                         round(rnd.choice((0.0, 0.1, 0.5, 0.9)) * T, 6)]
                script.append(s)
            close_at = rnd.choice(OFFSETS) * T if (transport == "tcp" and rnd.random() < 0.3) else None
            # (external cancellation of a caller is outside the property's quantifier and NOT driven here: on the unchanged tree a
            #  cancelled in-flight caller is treated like a lost answer - the cancellation is swallowed and turned into a retry -
            #  which by itself lets a queued caller transmit early; C10 has a controlled 'queued caller cancelled' workload)
            ka = rnd.random() < 0.5
            cancel = None
            counts = [rnd.choice((2, 2, 3, 5, 10, 60)) for _ in range(k)] if rnd.random() < 0.5 else None
            if rnd.random() < 0.2:
                script = [rnd.choice(("now", ["delay", round(rnd.choice((0.1, 0.4, 0.8)) * T, 6)])) for _ in range(k + 1)]
            sc_ = scenario(transport, ka, T, R, script, starts, close_at, cancel, counts)
            sc_["hops"] = rnd.choice((0, 0, 1, 2, 3))
            run_case(sc_, part)
    return part


def replay(case):
    part = Part()
    vs = run_case(case["scenario"], part)
    return [{"key": k, "msg": m} for k, m in vs]
