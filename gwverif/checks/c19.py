"""C19  Operation mode, export limit and DoD setters round-trip with their getters (exploration)."""
from __future__ import annotations

import random

from .. import engine, env, models
from .. import refsensors as rs
from ..runner import Part

PROPERTY = "C19"
LEVEL = "exploration"
RULE = ("(encoder level, exhaustive) for eco-mode v1 and v2 groups x every prior schedule type in the group's registers (on/off byte "
        "of types 0..6 enabled/disabled, NOT_SET, undecodable) x 745 / non-745 platform x power 1..100 x SoC 0..100: the real "
        "read_value -> set_schedule_type -> encode_charge / encode_discharge bytes are decoded by a fresh group object and must give "
        "is_eco_charge/discharge_mode, power -/+p via get_power() and the SoC; (end to end, sampled) for ET (eco v1 / v2 / 745 "
        "platform / peak shaving absent) and ES (ARM 5 / ARM 14 without eco v2 / eco v2 firmware) with random prior contents of all four groups (partial month masks included), polls between setter calls: every mode of "
        "get_operation_modes(True) is set and read back, ECO_CHARGE/ECO_DISCHARGE additionally check group 1 and that groups 2-4 "
        "are switched off; the same emulated mode again with the same power and another SoC; setters whose write the inverter refuses; export limits and DoD values over their valid ranges round-trip (ET, DT single/three phase, ES); "
        "distinct = distinct (family, variant, mode or setter, prior class / value class) tuples")
ASSUMPTIONS = ["v1 groups carry no SoC and encode_discharge takes none: SoC is asserted for v2 ECO_CHARGE only",
               "a limit whose encoding is the all-ones 'no value' sentinel (65535) is outside the readable domain",
               "a setter that raises (e.g. ES with undecodable prior eco registers) has not 'succeeded': nothing is asserted then"]
MUST = ["same_value_set_again_after_foreign_change", "group_inspected_after_other_getters", "mode_setter_repeated_after_failed_attempt", "limits_kept_across_mode_change", "eco_group_type_checked", "prior_group_fulltime_but_off", "prior_group_typed_with_undecodable_tail", "single_sensor_reads_before_setters", "roundtrips_in_each_mode", "background_poller_during_setters", "same_mode_repeated", "setter_with_refused_write", "polls_between_setters", "encoder_roundtrips", "mode_roundtrips", "eco_charge_checked", "eco_discharge_checked", "groups_off_checked",
        "export_limit_roundtrips", "dod_roundtrips", "prior_nonempty_types", "es_modes", "et_745", "et_v1"]
EXHAUSTIVE = {"quick": False, "thorough": False}

ONOFF_V2 = [0, 1, 2, 3, 4, 5, 6, 0xFF, 0xFE, 0xFD, 0xFC, 0xFB, 0xFA, 0xF9, 85, 0x40, 0x99]


def prior_v2(rnd, onoff, fulltime=False, bad_tail=False):
    if bad_tail:
        # a group of the given type whose fields AFTER the on/off byte cannot be interpreted (SoC 200 %, month mask beyond December)
        b = bytearray(prior_v2(rnd, onoff, fulltime))
        if rnd.random() < 0.6:
            b[8:10] = rnd.choice((101, 200, 0x7FFF)).to_bytes(2, "big")
        else:
            b[10:12] = rnd.choice((0x1000, 0xFFFF, 0x8001)).to_bytes(2, "big")
        return bytes(b)
    if fulltime:
        head = bytes([0, 0, 23, 59])
    else:
        head = bytes([rnd.randrange(24), rnd.randrange(60), rnd.randrange(24), rnd.randrange(60)])
    typ = onoff if onoff < 0x80 else 255 - onoff
    power = rnd.choice((-50, 30, 100, -100)) if typ == 0 else (rnd.choice((-50, 30, 250, -950, 1000)) if typ == 6 else
                                                                rnd.choice((-50, 30, 250, -950, 3000)))
    return head + bytes([onoff, 0x7F if fulltime else rnd.choice((0, 0x7F, 0x15))]) + power.to_bytes(2, "big", signed=True) + \
        rnd.randrange(0, 101).to_bytes(2, "big") + rnd.choice((0, 0x0FFF, 0, 0x0FFF, 0x0007, 0x0800, 0x00E0, 0x0555)).to_bytes(2, "big")


def prior_v1(rnd, on=True, fulltime=False, garbage=False):
    if garbage:
        return bytes(rnd.randrange(256) for _ in range(8))
    head = bytes([0, 0, 23, 59]) if fulltime else bytes([rnd.randrange(24), rnd.randrange(60), rnd.randrange(24), rnd.randrange(60)])
    return head + rnd.choice((-60, 40, 100, -100)).to_bytes(2, "big", signed=True) + bytes([0xFF if on else 0, 0x7F if fulltime else rnd.choice((0, 0x7F, 0x2A))])


def encoder_part(spec, part):
    g = env.goodwe()
    S = g.sensor
    PR = g.protocol.ProtocolResponse
    rnd = random.Random(spec["seed"])
    # v2
    for is745 in (False, True):
        for onoff in ONOFF_V2:
            for fulltime in (False, True):
                grp = S.EcoModeV2("eco_mode_1", 47547, "x")
                prior = prior_v2(rnd, onoff, fulltime)
                try:
                    grp.read_value(PR(prior, None))
                    decodable = True
                except ValueError:
                    decodable = False
                grp.set_schedule_type(S.ScheduleType.ECO_MODE, is745)
                if decodable and onoff not in (0, 0xFF, 6, 0xF9, 85):
                    part.count("prior_nonempty_types")
                for p in range(1, 101):
                    for s_ in (range(0, 101) if (p % spec["sstride"] == 1 or spec["sstride"] == 1) else (0, 50, 100)):
                        part.evaluations += 1
                        part.count("encoder_roundtrips")
                        case = {"enc": True, "v": 2, "is745": is745, "onoff": onoff, "fulltime": fulltime, "p": p, "s": s_}
                        for kind in ("charge", "discharge"):
                            b = grp.encode_charge(p, s_) if kind == "charge" else grp.encode_discharge(p)
                            fresh = S.EcoModeV2("eco_mode_1", 47547, "x")
                            try:
                                v = fresh.read_value(PR(b, None))
                            except Exception as e:      # noqa
                                part.violate(f"C19/encoder/v2/undecodable-{kind}-group",
                                             f"prior on/off 0x{onoff:02x} (745={is745}): encode_{kind}({p},{s_}) = {b.hex()} does not decode: {e}", case)
                                continue
                            ok_mode = v.is_eco_charge_mode() if kind == "charge" else v.is_eco_discharge_mode()
                            want_p = -p if kind == "charge" else p
                            if not ok_mode or v.get_power() != want_p or (kind == "charge" and v.soc != s_):
                                part.violate(f"C19/encoder/v2/{kind}-group-does-not-round-trip",
                                             f"prior on/off 0x{onoff:02x} (745={is745}): encode_{kind}({p},{s_}) = {b.hex()} decodes to mode-match={ok_mode} "
                                             f"power={v.get_power()} soc={v.soc} type={v.get_schedule_type().name}", case)
                part.see(f"enc|v2|{is745}|{onoff}|{fulltime}")
    # v1
    for on in (True, False):
        grp = S.EcoModeV1("eco_mode_1", 47515, "x")
        try:
            grp.read_value(PR(prior_v1(rnd, on), None))
        except ValueError:
            pass
        grp.set_schedule_type(S.ScheduleType.ECO_MODE, False)
        for p in range(1, 101):
            part.evaluations += 1
            part.count("encoder_roundtrips")
            for kind in ("charge", "discharge"):
                b = grp.encode_charge(p, 100) if kind == "charge" else grp.encode_discharge(p)
                v = S.EcoModeV1("eco_mode_1", 47515, "x").read_value(PR(b, None))
                ok_mode = v.is_eco_charge_mode() if kind == "charge" else v.is_eco_discharge_mode()
                if not ok_mode or v.get_power() != (-p if kind == "charge" else p):
                    part.violate(f"C19/encoder/v1/{kind}-group-does-not-round-trip", f"encode_{kind}({p}) = {b.hex()} decodes to power {v.get_power()} mode-match={ok_mode}",
                                 {"enc": True, "v": 1, "p": p})
        part.see(f"enc|v1|{on}")
    part.sample({"mode": "encoder level", "roundtrips": part.counters.get("encoder_roundtrips")})


def e2e_part(spec, part):
    g = env.goodwe()
    OM = g.OperationMode
    rnd = random.Random(spec["seed"])
    fam, variant, port = spec["family"], spec["variant"], spec["port"]
    for it in range(spec["n"]):
        if fam == "ET":
            tag = {"v2": "ETU", "v1": "ETU", "745": rnd.choice(("ETT", "ESN", "HUB")), "nopeak": "ETU"}[variant]
            refused = {"v2": [], "v1": ["eco_v2", "peak_shaving"], "745": [], "nopeak": ["peak_shaving"]}[variant]
            sim = models.et_sim(tag=tag, refused_blocks=refused)
            sim.regs[47000] = rnd.randrange(0, 6)
            sim.regs[35184] = rnd.choice((0, 1, 2))        # battery mode (0 = no battery seen by the polls)
            sim.regs[45358] = rnd.randrange(0, 100)        # (off-line depth of discharge: another setting, another register)
            v2 = variant != "v1"
        else:
            # (v1 = ARM fw 5: oldest command set; v1arm = ARM fw 14 but DSP too old for eco-mode v2: the middle branch of the ES mode setters)
            # (serial-number tags of every ES-protocol model line, and - a user may point the ES class at anything - of the newer
            #  745-platform low-voltage line)
            es_tag = rnd.choice(("ESU", "ESU", "EMU", "BPS", "ESA", "EMJ", "BPU", "IJL", "ESN", "EMN", "EBN"))
            sim = models.es_sim(fw={"v2": b"2225F", "v1arm": b"1414E"}.get(variant, b"02525"), tag=es_tag)
            # (documented: eco-mode v2 needs ARM >= 14 and DSP >= 22 on ES, >= 11 on EM, >= 10 on BP units; other lines keep the v1 groups)
            dsp_, arm_ = {"v2": (22, 15), "v1arm": (14, 14)}.get(variant, (2, 5))
            v2 = arm_ >= 14 and dsp_ >= {"ESU": 22, "ESA": 22, "EMU": 11, "EMJ": 11, "BPS": 10, "BPU": 10}.get(es_tag, 10 ** 6)
        # prior contents of the four groups
        prior_cls = rnd.choice(("fulltime-on", "typed", "typed", "garbage", "off", "typed-on", "typed-bad-tail", "fulltime-off"))
        directed_off = it < 5       # the first runs of every shard: switched-off all-day group of each firmware's 'off' value, ECO selected first
        if directed_off:
            prior_cls = "fulltime-off"
        bases = (47547, 47553, 47559, 47565) if v2 else ((47515, 47519, 47523, 47527) if fam == "ET" else (1793, 1797, 1801, 1805))
        for gi, base in enumerate(bases):
            if v2:
                if prior_cls == "garbage" and gi == 0:
                    b = bytes(rnd.randrange(256) for _ in range(12))
                elif prior_cls == "fulltime-on" and gi == 0:
                    b = prior_v2(rnd, rnd.choice((0xFF, 0xF9)), True)
                elif prior_cls == "typed-bad-tail" and gi == 0:
                    b = prior_v2(rnd, rnd.choice(ONOFF_V2[:14]), rnd.random() < 0.5, bad_tail=True)
                    part.count("prior_group_typed_with_undecodable_tail")
                elif prior_cls == "fulltime-off" and gi == 0:
                    # the all-day / all-week pattern, but switched OFF - with each of the 'off' values the firmware generations use
                    b = prior_v2(rnd, rnd.choice((0, 6, 85, 1, 3)) if not directed_off else (6, 85, 1, 3, 0)[it], True)
                    if directed_off:
                        b = b[:10] + (0x0FFF if it % 2 else 0).to_bytes(2, "big")
                    part.count("prior_group_fulltime_but_off")
                elif prior_cls == "off":
                    b = prior_v2(rnd, rnd.choice((0, 6, 85)))
                else:
                    b = prior_v2(rnd, rnd.choice(ONOFF_V2[:14]) if gi == 0 else rnd.choice((0xFF, 0xF9, 0xFC, 0xFE)))
            else:
                b = prior_v1(rnd, on=(prior_cls not in ("off", "fulltime-off")), fulltime=(prior_cls in ("fulltime-on", "fulltime-off") and gi == 0),
                             garbage=(prior_cls == "garbage" and gi == 0))
            if fam == "ES" and not v2:
                for i in range(4):
                    sim.setreg(base + i, int.from_bytes(b[2 * i:2 * i + 2], "big"))
            else:
                sim.set_bytes(base, b)
        prior_fulltime = prior_cls == "fulltime-on"
        tagtxt = f"{fam} {variant} port={port} prior={prior_cls}"
        case = {"e2e": True, "spec": dict(spec, n=it + 1)}
        steps = []
        state = {"g1_written": False}

        def group1_fulltime():
            """independent look at the simulated registers: is group 1 the all-day / all-week enabled pattern?"""
            b = sim.get_bytes(bases[0], 6 if v2 else 4)
            if b[0:4] != bytes([0, 0, 23, 59]):
                return False
            if v2:
                return b[4] >= 0x80 and b[5] == 0x7F and b[6:8] != b"\x00\x00"
            return b[6] != 0 and b[7] == 0x7F and b[4:6] != b"\x00\x00"

        async def flow(loop):
            inv = models.family_cls(g, fam)("inv0", port, 0, 1, 0)
            await inv.read_device_info()
            modes = list(await inv.get_operation_modes(True))
            rnd.shuffle(modes)
            if directed_off and OM.ECO in modes:
                modes.remove(OM.ECO)
                modes.insert(0, OM.ECO)
            # a monitoring task that keeps reading group 1 and the runtime data WHILE the setters run (an integration polling in the background)
            bg = {"stop": False, "task": None}
            if rnd.random() < 0.3:
                import asyncio
                sim.delay = 0.02

                async def poller():
                    k = 0
                    while not bg["stop"]:
                        k += 1
                        try:
                            await (inv.read_setting("eco_mode_1") if k % 3 else inv.read_runtime_data())
                        except Exception:       # noqa
                            pass
                        await asyncio.sleep(0.013)
                bg["task"] = loop.create_task(poller())
                part.count("background_poller_during_setters")
            polls = rnd.random() < 0.6          # monitoring polls run between the setter calls, as in an integration
            if polls:
                await inv.read_runtime_data()
                part.count("polls_between_setters")
                if rnd.random() < 0.5:
                    # (the monitoring also reads single sensors - among them those whose id coincides with a setting id, e.g. work_mode)
                    for sid_ in sorted({x.id_ for x in inv.sensors()} & {x.id_ for x in inv.settings()}) + ["vpv1"]:
                        try:
                            await inv.read_sensor(sid_)
                        except (ValueError, g.InverterError):
                            pass
                    part.count("single_sensor_reads_before_setters")
            for m in modes:
                p, s_ = rnd.randrange(1, 101), rnd.randrange(0, 101)
                try:
                    await inv.set_operation_mode(m, p, s_)
                except Exception as e:      # noqa   (a setter that raises has not succeeded)
                    steps.append((m.name, "set-raised:" + type(e).__name__))
                    continue
                try:
                    got = await inv.get_operation_mode()
                except ValueError as e:
                    # group 1 still holds the undecodable prior content (outside 'all schedule types'): documented ValueError
                    steps.append((m.name, "get-raised:ValueError"))
                    if prior_cls in ("garbage", "typed-bad-tail") and not state["g1_written"]:
                        part.count("getter_valueerror_on_garbage_group")
                        continue
                    part.violate(f"C19/{fam}/getter-raises", f"{tagtxt}: get_operation_mode() after set_operation_mode({m.name}) raised ValueError: {e}", case)
                    continue
                if m in (OM.ECO_CHARGE, OM.ECO_DISCHARGE):
                    state["g1_written"] = True
                part.evaluations += 1
                part.count("mode_roundtrips")
                if fam == "ES":
                    part.count("es_modes")
                if variant == "745":
                    part.count("et_745")
                if variant == "v1" and fam == "ET":
                    part.count("et_v1")
                steps.append((m.name, got.name if got is not None else None))
                if state.get("limits") is not None and got == m:
                    # the export limit and depth of discharge set BEFORE this mode change are still what the getters return after it
                    d0_, x0_, m0_ = state.pop("limits")
                    try:
                        gd0, gx0 = await inv.get_ongrid_battery_dod(), await inv.get_grid_export_limit()
                    except Exception as e:      # noqa
                        part.violate(f"C19/{fam}/run-failed/{type(e).__name__}", f"{tagtxt}: getters after the change {m0_} -> {m.name}: {e!r}", case)
                        gd0, gx0 = d0_, x0_
                    part.count("limits_kept_across_mode_change")
                    if gx0 != x0_:
                        part.violate(f"C19/{fam}/export-limit-roundtrip/after-mode-change",
                                     f"{tagtxt}: set_grid_export_limit({x0_}) in mode {m0_}, then set_operation_mode({m.name}, {p}, {s_}): get_grid_export_limit() = {gx0}", case)
                    if gd0 != d0_:
                        part.violate(f"C19/{fam}/dod-roundtrip/after-mode-change/{m.name}",
                                     f"{tagtxt}: set_ongrid_battery_dod({d0_}) in mode {m0_}, then set_operation_mode({m.name}, {p}, {s_}): get_ongrid_battery_dod() = {gd0}", case)
                state.pop("limits", None)
                if got == m and rnd.random() < 0.5:
                    # the other setters round-trip whatever mode the inverter is in
                    d_ = rnd.randrange(0, 101)
                    x_ = rnd.randrange(0, 10000)
                    try:
                        await inv.set_ongrid_battery_dod(d_)
                        gd = await inv.get_ongrid_battery_dod()
                        await inv.set_grid_export_limit(x_)
                        gx = await inv.get_grid_export_limit()
                    except Exception as e:      # noqa
                        part.violate(f"C19/{fam}/run-failed/{type(e).__name__}", f"{tagtxt}: DoD / export limit round trip in mode {m.name}: {e!r}", case)
                        gd, gx = d_, x_
                    part.count("roundtrips_in_each_mode")
                    if gd != d_:
                        part.violate(f"C19/{fam}/dod-roundtrip", f"{tagtxt}: in mode {m.name}: set_ongrid_battery_dod({d_}) then get = {gd}", case)
                    if gx != x_:
                        part.violate(f"C19/{fam}/export-limit-roundtrip", f"{tagtxt}: in mode {m.name}: set_grid_export_limit({x_}) then get = {gx}", case)
                    if gd == d_ and gx == x_:
                        state["limits"] = (d_, x_, m.name)
                if got != m:
                    key = f"C19/{fam}/mode-roundtrip/{m.name}"
                    # known mechanism: ECO leaves the groups alone; a pre-existing all-day/all-week enabled group 1 makes the
                    # getter report the emulated mode
                    if m == OM.ECO and got in (OM.ECO_CHARGE, OM.ECO_DISCHARGE) and group1_fulltime():
                        key = f"C19/{fam}/mode-roundtrip/ECO-over-fulltime-group"
                    part.violate(key, f"{tagtxt}: set_operation_mode({m.name}, {p}, {s_}) then get_operation_mode() = {got.name if got is not None else None}", case)
                    continue
                if m in (OM.ECO_CHARGE, OM.ECO_DISCHARGE):
                    g1 = await inv.read_setting("eco_mode_1")
                    if rnd.random() < 0.5:
                        # (the application looks at other things first: what it was handed must still decode to what was set)
                        try:
                            await inv.get_ongrid_battery_dod()
                            await inv.get_grid_export_limit()
                            await inv.read_settings_data()
                        except (ValueError, g.InverterError):
                            pass
                        part.count("group_inspected_after_other_getters")
                    want_p = -p if m == OM.ECO_CHARGE else p
                    part.count("eco_charge_checked" if m == OM.ECO_CHARGE else "eco_discharge_checked")
                    if g1.get_power() != want_p:
                        part.violate(f"C19/{fam}/eco-group-power/{m.name}", f"{tagtxt}: {m.name} power {p}: group 1 decodes to {g1.get_power()}{g1.get_power_unit()} ({g1})", case)
                    if v2:
                        # the group is an ECO-MODE group: its on/off byte is 'on' for one of the two eco-mode schedule types (type 0 -> 0xFF,
                        # 745-platform type 6 -> 0xF9; the library deliberately keeps whichever of the two it finds in the registers),
                        # never 'on' for the dry-contact / peak-shaving / backup / smart-charge type the registers held before
                        raw_onoff = sim.get(bases[0] + 2) >> 8
                        part.count("eco_group_type_checked")
                        if raw_onoff not in (0xFF, 0xF9):
                            part.violate(f"C19/{fam}/eco-group-type/{m.name}",
                                         f"{tagtxt}: after {m.name} group 1 carries on/off byte 0x{raw_onoff:02x} (schedule type {255 - raw_onoff}), which is not an "
                                         f"eco-mode type (0xff / 0xf9) ({g1})", case)
                    if v2 and m == OM.ECO_CHARGE and g1.soc != s_:
                        part.violate(f"C19/{fam}/eco-group-soc", f"{tagtxt}: ECO_CHARGE soc {s_}: group 1 decodes to SoC {g1.soc}", case)
                    for k in (2, 3, 4):
                        try:
                            gk = await inv.read_setting(f"eco_mode_{k}")
                        except ValueError:
                            gk = None
                        onoff = gk.on_off if gk is not None else sim.get(bases[k - 1] + (2 if v2 else 3)) >> 8
                        onoff = onoff - 256 if onoff > 127 else onoff
                        part.count("groups_off_checked")
                        if onoff < 0:
                            part.violate(f"C19/{fam}/eco-group-left-on", f"{tagtxt}: after {m.name} eco-mode group {k} is still switched on (on/off byte {onoff})", case)
                    # switch the groups on again through a path that does not refresh the group objects (switch setting / another
                    # client): the next ECO_CHARGE / ECO_DISCHARGE has to switch them off again
                    for k in (2, 3, 4):
                        if rnd.random() < 0.7:
                            if rnd.random() < 0.5:
                                try:
                                    await inv.write_setting(f"eco_mode_{k}_switch", -1)
                                except Exception:   # noqa
                                    pass
                            else:
                                a = bases[k - 1] + (2 if v2 else 3)
                                val = (sim.get(a) & 0x00FF) | 0xFF00
                                if fam == "ES" and not v2:
                                    sim.setreg(a, val)
                                else:
                                    sim.regs[a] = val
            # the same emulated mode again with the same power and another SoC (group 1 already is that 24/7 group)
            if OM.ECO_CHARGE in modes:
                p = rnd.randrange(1, 101)
                s1 = rnd.randrange(0, 101)
                s2 = (s1 + rnd.randrange(1, 100)) % 101
                for m, s_ in ((OM.ECO_CHARGE, s1), (OM.ECO_CHARGE, s2), (OM.ECO_CHARGE, 100), (OM.ECO_CHARGE, 0), (OM.ECO_DISCHARGE, s1), (OM.ECO_DISCHARGE, s2), (OM.ECO_CHARGE, s2)):
                    try:
                        await inv.set_operation_mode(m, p, s_)
                    except Exception as e:      # noqa   (a setter that raises has not succeeded, e.g. undecodable prior group on ES)
                        steps.append((m.name, "repeat-set-raised:" + type(e).__name__))
                        continue
                    try:
                        got = await inv.get_operation_mode()
                        g1 = await inv.read_setting("eco_mode_1")
                    except Exception as e:      # noqa
                        steps.append((m.name, "repeat-raised:" + type(e).__name__))
                        part.violate(f"C19/{fam}/run-failed/{type(e).__name__}", f"{tagtxt}: repeated set_operation_mode({m.name}, {p}, {s_}): {e!r}", case)
                        break
                    part.count("same_mode_repeated")
                    want_p = -p if m == OM.ECO_CHARGE else p
                    if got != m:
                        part.violate(f"C19/{fam}/mode-roundtrip/{m.name}", f"{tagtxt}: repeated set_operation_mode({m.name}, {p}, {s_}) then get = {got}", case)
                    elif g1.get_power() != want_p:
                        part.violate(f"C19/{fam}/eco-group-power/{m.name}", f"{tagtxt}: repeated {m.name} power {p}: group 1 decodes to {g1.get_power()}", case)
                    elif v2 and m == OM.ECO_CHARGE and g1.soc != s_:
                        part.violate(f"C19/{fam}/eco-group-soc", f"{tagtxt}: ECO_CHARGE(power {p}, soc {s_}) right after the same mode with another SoC: "
                                                                 f"group 1 decodes to SoC {g1.soc}", case)
            # a setter whose write the inverter refuses (busy / illegal value) has not succeeded: it must say so, or the getter must agree
            if fam == "ET":
                for reg, setter, getter, val in ((47510, inv.set_grid_export_limit, inv.get_grid_export_limit, rnd.randrange(1, 9000)),
                                                 (45356, inv.set_ongrid_battery_dod, inv.get_ongrid_battery_dod, rnd.randrange(0, 100))):
                    sim.exc_map[(6, reg)] = rnd.choice((3, 4, 6))
                    try:
                        await setter(val)
                        claimed = True
                    except g.InverterError:
                        claimed = False
                    del sim.exc_map[(6, reg)]
                    part.count("setter_with_refused_write")
                    if claimed:
                        got = await getter()
                        if got != val:
                            part.violate(f"C19/{fam}/refused-write-reported-as-success",
                                         f"{tagtxt}: the inverter refused the write to register {reg}, {setter.__name__}({val}) returned normally and the "
                                         f"getter returns {got}", case)
            # a mode setter whose work-mode write is refused (or lost), then the application simply calls the same setter again: the
            # second call has to do the whole job - whatever the first one left behind in the object
            if fam == "ET":
                for m2 in rnd.sample([OM.GENERAL, OM.BACKUP, OM.OFF_GRID, OM.ECO], 2):
                    code_now = sim.get(47000)
                    sim.regs[47000] = {0: 2, 1: 0, 2: 0, 3: 0}.get(code_now, 0) if rnd.random() < 0.7 else code_now
                    if rnd.random() < 0.5:
                        sim.exc_map[(6, 47000)] = rnd.choice((6, 4))
                    else:
                        sim.silent_regs = {47000}
                    try:
                        await inv.set_operation_mode(m2)
                        first_failed = False
                    except (g.InverterError, ValueError):
                        first_failed = True
                    sim.exc_map.pop((6, 47000), None)
                    sim.silent_regs = set()
                    if not first_failed:
                        continue
                    try:
                        await inv.set_operation_mode(m2)
                        got = await inv.get_operation_mode()
                    except ValueError:
                        continue        # (group 1 still holds undecodable prior content: the getter's documented ValueError)
                    except Exception as e:      # noqa
                        part.violate(f"C19/{fam}/run-failed/{type(e).__name__}", f"{tagtxt}: set_operation_mode({m2.name}) repeated after a failed attempt: {e!r}", case)
                        continue
                    part.count("mode_setter_repeated_after_failed_attempt")
                    if got != m2 and not (m2 == OM.ECO and got in (OM.ECO_CHARGE, OM.ECO_DISCHARGE) and group1_fulltime()):
                        part.violate(f"C19/{fam}/mode-roundtrip/{m2.name}",
                                     f"{tagtxt}: set_operation_mode({m2.name}) failed (work-mode write refused / lost), the same call repeated succeeded, "
                                     f"yet get_operation_mode() = {got.name if got is not None else None} (work-mode register holds {sim.get(47000)})", case)
            # export limit and DoD
            for x in [0, 1, 100, 4999, 10000, 65534] + [rnd.randrange(0, 65535) for _ in range(4)]:
                await inv.set_grid_export_limit(x)
                got = await inv.get_grid_export_limit()
                part.evaluations += 1
                part.count("export_limit_roundtrips")
                if got != x:
                    part.violate(f"C19/{fam}/export-limit-roundtrip", f"{tagtxt}: set_grid_export_limit({x}) then get = {got}", case)
            for d in [0, 1, 10, 50, 89, 99, 100] + [rnd.randrange(0, 101) for _ in range(3)]:
                if polls and d % 3 == 0:
                    await inv.read_runtime_data()
                await inv.set_ongrid_battery_dod(d)
                got = await inv.get_ongrid_battery_dod()
                part.evaluations += 1
                part.count("dod_roundtrips")
                if got != d:
                    part.violate(f"C19/{fam}/dod-roundtrip", f"{tagtxt}: set_ongrid_battery_dod({d}) then get = {got}", case)
            # the same value set again after ANOTHER client (the vendor app, a second integration) changed it in between: the setter has succeeded
            # only if the inverter holds the value afterwards - whatever this object remembers having written before
            if it % 3 == 0:
                inv2 = models.family_cls(g, fam)("inv0", port, 0, 1, 0)
                await inv2.read_device_info()
                for setter, getter, other_setter, v, other in (
                        (inv.set_ongrid_battery_dod, inv.get_ongrid_battery_dod, inv2.set_ongrid_battery_dod, rnd.randrange(0, 90), rnd.randrange(0, 90)),
                        (inv.set_grid_export_limit, inv.get_grid_export_limit, inv2.set_grid_export_limit, rnd.randrange(0, 9000), rnd.randrange(0, 9000))):
                    if other == v:
                        other += 1
                    await setter(v)
                    await other_setter(other)
                    await setter(v)
                    got = await getter()
                    part.count("same_value_set_again_after_foreign_change")
                    if got != v:
                        part.violate(f"C19/{fam}/{'dod' if 'dod' in setter.__name__ else 'export-limit'}-roundtrip/after-foreign-change",
                                     f"{tagtxt}: {setter.__name__}({v}); another client sets {other}; {setter.__name__}({v}) again returned normally, "
                                     f"{getter.__name__}() = {got}", case)
            bg["stop"] = True
            if bg["task"] is not None:
                await bg["task"]

        run = engine.run_custom({("inv0", port): sim}, flow, vtime_cap=20000, tx_cap=50000)
        if run.stop or run.error is not None:
            part.violate(f"C19/{fam}/run-failed/{type(run.error).__name__ if run.error else 'hang'}", f"{tagtxt}: {run.stop or repr(run.error)[:160]} after {steps[-3:]}", case)
        part.see(f"e2e|{fam}|{variant}|{port}|{prior_cls}")
        if it % 17 == 0:
            part.sample({"family": fam, "variant": variant, "port": port, "prior": prior_cls, "modes": steps[:8]})


def dt_part(spec, part):
    g = env.goodwe()
    rnd = random.Random(spec["seed"])
    for tag in ("DTU", "DSN", "MSU", "DTS"):
        for port in (8899, 502):
            sim = models.dt_sim(tag=tag)

            async def flow(loop):
                inv = g.DT("inv0", port, 0, 1, 0)
                await inv.read_device_info()
                single = "DSN" in tag or "MSU" in tag
                xs = [0, 1, 100, 65534, 65536, 1000000, 2 ** 32 - 2] if single else [0, 1, 50, 100, 200, 65534]
                for x in xs + [rnd.randrange(0, 65535) for _ in range(5)]:
                    await inv.set_grid_export_limit(x)
                    got = await inv.get_grid_export_limit()
                    part.evaluations += 1
                    part.count("export_limit_roundtrips")
                    if got != x:
                        part.violate("C19/DT/export-limit-roundtrip", f"DT {tag} port={port}: set_grid_export_limit({x}) then get = {got}",
                                     {"dt": True, "seed": spec["seed"]})
            run = engine.run_custom({("inv0", port): sim}, flow, vtime_cap=5000)
            if run.stop or run.error is not None:
                part.violate("C19/DT/run-failed", f"DT {tag}: {run.stop or repr(run.error)[:160]}", {"dt": True, "seed": spec["seed"]})
            part.see(f"dt|{tag}|{port}")


def plan(tier, seed):
    specs = [{"mode": "enc", "seed": f"{seed}:C19:enc", "sstride": 10 if tier == "quick" else 1},
             {"mode": "dt", "seed": f"{seed}:C19:dt"}]
    n = 25 if tier == "quick" else 1000
    for fam, variants in (("ET", ["v2", "v1", "745", "nopeak"]), ("ES", ["v1", "v2", "v1arm"])):
        for v in variants:
            for port in ((8899, 502) if fam == "ET" else (8899,)):
                for k in range(1 if tier == "quick" else 4):
                    specs.append({"mode": "e2e", "family": fam, "variant": v, "port": port, "n": n,
                                  "seed": f"{seed}:C19:{fam}:{v}:{port}:{k}"})
    return specs


def run_shard(spec):
    part = Part()
    {"enc": encoder_part, "e2e": e2e_part, "dt": dt_part}[spec["mode"]](spec, part)
    return part


def replay(case):
    part = Part()
    if case.get("e2e"):
        e2e_part(case["spec"], part)
    elif case.get("dt"):
        dt_part({"seed": case["seed"]}, part)
    else:
        encoder_part({"seed": "replay", "sstride": 1}, part)
    return [{"key": v["key"], "msg": v["msg"]} for v in part.violations]
