"""C05  Retry budget and timeout are per request and exactly as configured (fault_enumeration)."""
from __future__ import annotations

import errno
import itertools
import random

from .. import engine, env, sims
from .. import refcodec as rc
from ..peers import ScriptedPeer
from ..runner import Part

PROPERTY = "C05"
LEVEL = "fault_enumeration"
RULE = ("histories: every sequence (length <= 3 quick / 4 thorough) of request outcomes {success, success after k "
        "drops, slow in-time success, two-piece success, success followed by an idle connection drop, all connection attempts refused, retries exhausted, a lone fragment on every attempt, rejected after j drops, send error, receive error, late corrupted answer then "
        "slow success / silence} with 0.4 T gaps between some requests, followed by a silent request, "
        "x {udp-rtu, tcp} x keep-alive x (T, R) grid (timeouts 0.2 .. 7 s), with and without a new event loop between requests (previous loop closed or left open); plus the entry "
        "points connect/discover/search_inverters over a (timeout, retries) grid for each family; distinct = distinct "
        "(transport, keep-alive, T, R, outcome-class sequence, loop-change flag) tuples and entry-point configurations")
ASSUMPTIONS = [
    "peer scripts are keyed by register, so an unexpected number of transmissions cannot shift the script",
    "virtual clock; AF_UNIX socketpairs as in C04",
    "a 'probe' of an entry point is a maximal run of identical frames with no delivery in between",
]
MUST = ["stray_answer_of_another_function_code", "corrupted_answer_twice_at_once", "large_retry_budgets", "prefix_drop_then_refused", "same_command_repeated", "prefix_connections_refused", "prefix_idle_connection_dropped", "loop_change_previous_loop_open", "two_piece_answer_in_time", "lone_fragment_every_attempt", "slow_answer_in_time", "full_timeout_after_corrupt_answer", "final_silent_exact", "prefix_success_after_drops", "prefix_exhausted", "prefix_rejected", "prefix_send_error",
        "prefix_recv_error", "loop_change", "connect_probe", "discover_probe", "search_probe", "search_answered", "detected_family_probe",
        "connected_then_silent"]
EXHAUSTIVE = {"quick": True, "thorough": True}

EPS = 1e-6


def classes(R):
    cs = ["ok0", "okslow", "okfrag", "okdrop", "connref", "dropref", "exh", "fragexh", "senderr", "recverr", "badlate_ok", "badlate_exh", "baddup_exh"]
    cs += [f"ok{k}" for k in range(1, R + 1)]
    cs += [f"rej{j}" for j in range(0, R + 1)]
    cs += ["rej0u"]         # rejected at once with an exception code outside the Modbus table (9)
    return cs


# classes whose script length per request does not depend on how many transmissions the library makes (needed when one register
# carries the scripts of several requests one after the other)
SAME_OK = {"ok0", "okslow", "okfrag", "exh", "fragexh", "rej0", "rej0u"} | {f"ok{k}" for k in range(1, 6)} | {f"rej{k}" for k in range(1, 6)}


def script_for(cls, R):
    if cls == "ok0":
        return ["now"]
    if cls == "okslow":            # answered 0.6 T after the transmission: in time, one transmission
        return [["delay", "0.6T"]]
    if cls == "dropref":           # TCP: first transmission unanswered, every later connection attempt of the request refused
        return ["drop"] * 6
    if cls == "connref":           # TCP: the connection is closed first and every connection attempt of this request is refused
        return ["now"] * 6
    if cls == "okdrop":            # answered at once; afterwards the peer drops the idle connection (TCP FIN / UDP port closed)
        return ["now"]
    if cls == "okfrag":            # answered at once in two pieces, the second 0.3 T after the first: one transmission
        return [["frag2", None, "0.3T"]]
    if cls.startswith("ok"):
        return ["drop"] * int(cls[2:]) + ["now"]
    if cls == "exh":
        return ["drop"] * (R + 1)
    if cls == "fragexh":           # every attempt is answered at once by a lone first fragment: each attempt times out after T
        return ["frag1"] * (R + 1)
    if cls.startswith("rej"):
        return ["drop"] * int(cls[3:].rstrip("u")) + [["exc", 9 if cls.endswith("u") else 2]]
    if cls == "badlate_ok":        # corrupted answer half a timeout late, then the retransmission answered 0.8 T late
        return ["badsumlate", ["delay", "0.8T"]]
    if cls == "badlate_exh":       # corrupted answer half a timeout late, then silence
        return ["badsumlate"] + ["drop"] * (R + 1)
    if cls == "baddup_exh":        # the first transmission is answered at once by the same corrupted frame twice, then silence
        return ["baddup"] + ["drop"] * (R + 1)
    if cls == "senderr":
        return ["now", "now", "now", "now", "now"]
    if cls == "recverr":
        return ["closelate", "now", "now", "now", "now"]
    raise ValueError(cls)


def scenario(transport, ka, T, R, prefix, newloop, same_reg=False):
    framing = "rtu" if transport == "udp" else "tcp"
    by_reg = {}
    groups = []
    for i, cls in enumerate(prefix):
        reg = 100 if same_reg else 100 + i
        by_reg.setdefault(reg, [])
        by_reg[reg] += [(["delay", 0.8 * T] if x == ["delay", "0.8T"] else (["delay", 0.6 * T] if x == ["delay", "0.6T"] else
                        (["frag2", 5 if framing == "rtu" else 9, 0.3 * T] if x == ["frag2", None, "0.3T"] else x)))
                       for x in script_for(cls, R)]
        steps = []
        if cls == "senderr":
            steps.append(["arm_send_fault", errno.ENETUNREACH])
        if cls == "connref" and transport == "tcp":
            steps += [["close"], ["arm_connect", ["refused"] * (R + 1)]]
        if cls == "dropref" and transport == "tcp":
            steps += [["close"], ["arm_connect", ["ok"] + ["refused"] * R]]
        steps.append(["read", reg, 2])
        if cls == "okdrop" and transport == "tcp":       # (UDP has no idle drop: an ICMP error only ever answers a datagram that was sent)
            steps.append(["peerdrop"])
        if (i + len(prefix)) % 2 == 1:
            steps.append(["sleep", 0.4 * T])        # the next request starts 0.4 T later (stale timers would fire inside it)
        groups.append(steps)
    final_reg = 100 if same_reg else 100 + len(prefix)
    by_reg.setdefault(final_reg, [])
    groups.append([["read", final_reg, 2]])
    sc = {"transport": transport, "framing": framing, "keep_alive": ka, "T": T, "R": R, "by_reg": by_reg,
          "after": "drop", "prefix": list(prefix), "newloop": newloop, "same_reg": same_reg, "hops": (len(prefix) + sum(map(len, prefix))) % 4}
    if newloop:
        sc["segments"] = [[{"start": 0.0, "steps": g}] for g in groups]
        if newloop == "open":       # new_event_loop() + run_until_complete(): the previous loop objects are still open
            sc["keep_loops_open"] = True
    else:
        sc["tasks"] = [{"start": 0.0, "steps": [s for g in groups for s in g]}]
    return sc


def spaced(times, t0, T, n):
    return len(times) == n and all(abs(t - (t0 + k * T)) < EPS for k, t in enumerate(times))


def check_history(sc, run, part: Part):
    out = []
    tr, T, R = sc["transport"], sc["T"], sc["R"]
    if run.stop:
        return [(f"C05/{tr}/hang", run.stop)]
    reads = [c for c in run.calls if c["step"][0] == "read"]
    for i, rec in enumerate(reads):
        cls = sc["prefix"][i] if i < len(sc["prefix"]) else "final"
        txt = [e[0] for e in engine.events_of_call(run, rec["id"]) if e[1] == "tx"]
        ctx = f"request #{i} ({cls}) after {sc['prefix'][:i]} T={T} R={R} ka={sc['keep_alive']} newloop={sc['newloop']}"
        if cls in ("final", "exh", "fragexh"):
            if not spaced(txt, rec["t0"], T, R + 1):
                out.append((f"C05/{tr}/silent-request-budget",
                            f"{ctx}: transmissions at {[round(t - rec['t0'], 6) for t in txt]} (relative), expected {R + 1} spaced {T}"))
            elif abs(rec["t1"] - (rec["t0"] + (R + 1) * T)) > EPS or rec["outcome"] != "RequestFailedException":
                out.append((f"C05/{tr}/silent-request-end",
                            f"{ctx}: ended {rec['outcome']} at +{round(rec['t1'] - rec['t0'], 6)}, expected failure at +{(R + 1) * T}"))
            else:
                part.count({"final": "final_silent_exact", "exh": "prefix_exhausted"}.get(cls, "lone_fragment_every_attempt"))
        elif cls == "okfrag":
            if rec["outcome"] != "ok" or len(txt) != 1 or abs(rec["t1"] - (rec["t0"] + 0.3 * T)) > EPS:
                out.append((f"C05/{tr}/timeout-cut-short",
                            f"{ctx}: answer in two pieces (second 0.3 T after the first): outcome {rec['outcome']} at +{round(rec['t1'] - rec['t0'], 6)} "
                            f"with transmissions at {[round(t - rec['t0'], 6) for t in txt]}"))
            else:
                part.count("two_piece_answer_in_time")
        elif cls == "okslow":
            if rec["outcome"] != "ok" or len(txt) != 1 or abs(rec["t1"] - (rec["t0"] + 0.6 * T)) > EPS:
                out.append((f"C05/{tr}/timeout-cut-short",
                            f"{ctx}: answer 0.6 T after the transmission: outcome {rec['outcome']} at +{round(rec['t1'] - rec['t0'], 6)} "
                            f"with transmissions at {[round(t - rec['t0'], 6) for t in txt]}"))
            else:
                part.count("slow_answer_in_time")
        elif cls.startswith("ok"):
            k = 0 if cls == "okdrop" else int(cls[2:])
            if rec["outcome"] != "ok" or not spaced(txt, rec["t0"], T, k + 1):
                out.append((f"C05/{tr}/answer-on-kth-transmission-lost",
                            f"{ctx}: outcome {rec['outcome']} with transmissions at {[round(t - rec['t0'], 6) for t in txt]}, "
                            f"expected success on transmission {k + 1}"))
            elif k:
                part.count("prefix_success_after_drops")
            elif cls == "okdrop":
                part.count("prefix_idle_connection_dropped")
        elif cls.startswith("rej"):
            j = int(cls[3:].rstrip("u"))
            if rec["outcome"] != "RequestRejectedException" or not spaced(txt, rec["t0"], T, j + 1):
                out.append((f"C05/{tr}/rejection-on-kth-transmission",
                            f"{ctx}: outcome {rec['outcome']} with {len(txt)} transmissions, expected rejection on #{j + 1}"))
            else:
                part.count("prefix_rejected")
        elif cls in ("badlate_ok", "badlate_exh"):
            # implementation-agnostic form of "each transmission gets the full timeout": a retransmission (or the final failure) may
            # come earlier than one timeout after the previous transmission only if something was RECEIVED in between
            evs = engine.events_of_call(run, rec["id"])
            marks_ = [(e[0], e[1]) for e in evs if e[1] in ("tx", "rx", "rxerr", "eof", "txerr")]
            early = None
            for i, (t, k) in enumerate(marks_):
                if k != "tx":
                    continue
                nxt = next(((t2, k2) for t2, k2 in marks_[i + 1:] if k2 == "tx"), None)
                end_t = nxt[0] if nxt else rec["t1"]
                received_between = any(k2 != "tx" and t < t2 <= end_t + EPS for t2, k2 in marks_[i + 1:]) or \
                    any(k2 != "tx" and abs(t2 - t) < EPS and j > i for j, (t2, k2) in enumerate(marks_))
                if end_t < t + T - EPS and not received_between and not (nxt is None and rec["outcome"] == "ok"):
                    early = (t, end_t)
            if tr == "udp":
                if early:
                    out.append((f"C05/{tr}/timeout-cut-short",
                                f"{ctx}: the transmission at +{round(early[0] - rec['t0'], 6)} was given up at +{round(early[1] - rec['t0'], 6)} "
                                f"(timeout {T}) although nothing had been received for it"))
                elif cls == "badlate_ok" and R >= 1 and rec["outcome"] != "ok":
                    out.append((f"C05/{tr}/timeout-cut-short",
                                f"{ctx}: corrupted answer at +{0.5 * T}, the retransmission was answered {0.8 * T} after it was sent (inside its "
                                f"timeout), yet the request ended {rec['outcome']} at +{round(rec['t1'] - rec['t0'], 6)}"))
                else:
                    part.count("full_timeout_after_corrupt_answer")
        elif cls == "baddup_exh":
            # two corrupted datagrams in the same instant use up (at most) the attempt they answer: never more than R + 1 transmissions,
            # and on UDP every transmission made after them is given its whole timeout
            after = [t for t in txt if t > rec["t0"] + EPS or txt.index(t) > 0]
            if len(txt) > R + 1:
                out.append((f"C05/{tr}/silent-request-budget",
                            f"{ctx}: corrupted answer delivered twice at once, then silence: {len(txt)} transmissions at "
                            f"{[round(t - rec['t0'], 6) for t in txt]} (relative) with retries={R}"))
            elif tr == "udp" and (any(abs((b - a) - T) > EPS for a, b in zip(after, after[1:])) or
                                  (after and abs(rec["t1"] - (after[-1] + T)) > EPS)):
                out.append((f"C05/{tr}/timeout-cut-short",
                            f"{ctx}: corrupted answer delivered twice at once, then silence: transmissions at {[round(t - rec['t0'], 6) for t in txt]}, "
                            f"end at +{round(rec['t1'] - rec['t0'], 6)}: the transmissions after the corrupted pair are not {T} apart / the failure is "
                            f"not reported {T} after the last one"))
            else:
                part.count("corrupted_answer_twice_at_once")
        elif cls == "dropref":
            if tr == "tcp":
                conns = [e for e in engine.events_of_call(run, rec["id"]) if e[1] == "connect"]
                if rec["outcome"] != "RequestFailedException" or len(txt) + len([e for e in conns if e[3] != "ok"]) != R + 1:
                    out.append((f"C05/{tr}/refused-connections-outcome",
                                f"{ctx}: first transmission unanswered, reconnects refused: outcome {rec['outcome']}, {len(txt)} transmissions and "
                                f"{len(conns)} connection attempts ({[e[3] for e in conns]}), expected {R + 1} attempts in total"))
                else:
                    part.count("prefix_drop_then_refused")
        elif cls == "connref":
            if tr == "tcp":
                if rec["outcome"] != "RequestFailedException" or txt:
                    out.append((f"C05/{tr}/refused-connections-outcome", f"{ctx}: every connection attempt refused: outcome {rec['outcome']} after {len(txt)} transmissions"))
                else:
                    part.count("prefix_connections_refused")
        elif cls == "senderr":
            if any(e[1] == "txerr" for e in engine.events_of_call(run, rec["id"])):
                part.count("prefix_send_error")
        elif cls == "recverr":
            if any(e[1] in ("rxerr", "eof") for e in engine.events_of_call(run, rec["id"])):
                part.count("prefix_recv_error")
    if sc["newloop"]:
        part.count("loop_change")
        if sc["newloop"] == "open":
            part.count("loop_change_previous_loop_open")
    return out


def cross_function_part(part):
    """request A (a read) is served on its retransmission; the LATE answer to its first transmission arrives while request B - a write, i.e.
    another function code, whose own answers are lost - is waiting.  That stray datagram is no answer to B: B still gets its whole budget
    (retries + 1 transmissions) and ends as a failed request, not as a refusal nobody sent"""
    for transport, framing in (("udp", "rtu"), ("tcp", "tcp")):
        for ka in (True, False):
            for R in (1, 2, 3):
                for stepb in (["write", 101, 5], ["multi", 101, "00010002"], ["read", 101, 7]):
                    sc = {"transport": transport, "framing": framing, "keep_alive": ka, "T": 1, "R": R, "after": "drop",
                          "by_reg": {100: ["late", "now"], 101: []}, "tasks": [{"start": 0.0, "steps": [["read", 100, 2], stepb]}]}
                    run = engine.run_scenario(sc, quiesce=False)
                    part.evaluations += 1
                    part.count("stray_answer_of_another_function_code")
                    part.see(repr(("crossfc", transport, ka, R, stepb[0])))
                    case = {"kind": "crossfc"}
                    if run.stop:
                        part.violate(f"C05/{transport}/hang", run.stop, case)
                        continue
                    recb = run.calls[-1]
                    ntx = len([e for e in engine.events_of_call(run, recb["id"]) if e[1] == "tx"])
                    if recb["outcome"] != "RequestFailedException" or ntx != R + 1:
                        part.violate(f"C05/{transport}/silent-request-budget",
                                     f"keep_alive={ka} R={R}: {stepb} after a read whose first answer came late: ended {recb['outcome']} after {ntx} transmissions "
                                     f"(nothing but the late answer to the PREVIOUS request arrived for it); expected RequestFailedException after {R + 1}", case)


def run_history(sc, part):
    run = engine.run_scenario(sc, quiesce=False)
    part.evaluations += 1
    vs = check_history(sc, run, part)
    part.see(repr((sc["transport"], sc["keep_alive"], sc["T"], sc["R"], tuple(sc["prefix"]), sc["newloop"])))
    for key, msg in vs:
        part.violate(key, msg, {"kind": "history", "scenario": sc, "calls": run.calls,
                                "events": engine.jsonable_events(run.events, 150)})
    if part.evaluations % 211 == 7:
        part.sample({"scenario": {k: sc[k] for k in ("transport", "keep_alive", "T", "R", "prefix", "newloop")},
                     "calls": [{k: c.get(k) for k in ("outcome", "t0", "t1")} for c in run.calls],
                     "tx_times": [e[0] for e in run.events if e[1] == "tx"]})
    return vs


# ---- entry points ------------------------------------------------------------------------------------
class Silent(ScriptedPeer):
    def __init__(self, owner):
        super().__init__(owner, "rtu", [], 1)

    def on_request(self, s, kind, frame, n):
        self.loop.ev("peer", self.owner, n, "drop")


class DiscoveryThenSilent(sims.Aa55Sim):
    """Answers the AA55 identification probe once with a given serial number, then stays silent."""

    def on_request(self, s, kind, frame, n):
        if n == 1:
            return super().on_request(s, kind, frame, n)
        self.loop.ev("peer", self.owner, n, "drop")


class Answering(ScriptedPeer):
    """answers every datagram with a fixed payload after `delay`"""

    def __init__(self, owner, answer, delay=0.0):
        super().__init__(owner, "rtu", [], 1)
        self.answer, self.delay_ = answer, delay

    def on_request(self, s, kind, frame, n):
        self.loop.ev("peer", self.owner, n, "answer")
        self.send(s, self.answer, self.delay_, n)


def check_probes(kind, pr, timeout, retries, expect_n, tag, part, counter):
    out = []
    if expect_n is not None and len(pr) != expect_n:
        out.append((f"C05/entry/{kind}/probe-count", f"{tag}: {len(pr)} probes, expected {expect_n}: "
                    f"{[(f.hex()[:20], len(t)) for f, t in pr]}"))
    for fr, times in pr:
        if not spaced(times, times[0], timeout, retries + 1):
            out.append((f"C05/entry/{kind}/probe-budget",
                        f"{tag}: probe {fr.hex()[:24]} transmitted at {[round(t - times[0], 6) for t in times]}, "
                        f"expected {retries + 1} transmissions spaced {timeout}"))
    if not out:
        part.count(counter)
    return out


def entry_case(case, part):
    g = env.goodwe()
    engine.install_exec_hook()
    kind, t, r = case["kind"], case["timeout"], case["retries"]
    tag = f"{kind} {case}"
    vs = []
    if kind == "connect_silent":
        port = case["port"]
        peer = Silent("inv0")
        run = engine.run_custom({("inv0", port): peer},
                                lambda loop: g.connect("inv0", port, family=case["family"], timeout=t, retries=r))
        if run.stop:
            vs.append((f"C05/entry/{kind}/hang", f"{tag}: {run.stop}"))
        else:
            pr = engine.probes(run.events, strip_txid=(port == 502))
            # DT's read_device_info tolerates a failing meter-info read; only the first probe is mandatory
            vs += check_probes(kind, pr[:1], t, r, 1, tag, part, "connect_probe")
            if not isinstance(run.error, g.InverterError):
                vs.append((f"C05/entry/{kind}/outcome", f"{tag}: ended with {run.error!r}"))
    elif kind == "discover_silent":
        port = case["port"]
        peer = Silent("inv0")
        run = engine.run_custom({("inv0", port): peer}, lambda loop: (g.connect("inv0", port, None, 0, t, r) if case.get("via") == "connect"
                                                                      else g.discover("inv0", port, t, r)))
        if run.stop:
            vs.append((f"C05/entry/{kind}/hang", f"{tag}: {run.stop}"))
        else:
            pr = engine.probes(run.events, strip_txid=(port == 502))
            # identification probe (UDP port only), then the ET, DT and ES device-info requests
            vs += check_probes(kind, pr, t, r, 4 if port == 8899 else 3, tag, part, "discover_probe")
    elif kind == "search":
        peer = Silent("bcast")
        run = engine.run_custom({("255.255.255.255", 48899): peer}, lambda loop: g.search_inverters())
        if run.stop:
            vs.append((f"C05/entry/{kind}/hang", f"{tag}: {run.stop}"))
        else:
            pr = engine.probes(run.events)
            vs += check_probes(kind, pr, 1, 0, 1, tag, part, "search_probe")
            if abs(run.t_end - 1.0) > EPS:
                vs.append((f"C05/entry/{kind}/end-time", f"search_inverters failed at t={run.t_end}, expected 1 s"))
            if pr and pr[0][0] != b"WIFIKIT-214028-READ":
                vs.append((f"C05/entry/{kind}/frame", f"unexpected broadcast payload {pr[0][0]!r}"))
    elif kind == "search_answered":
        answer = b"192.168.1.14,289C6E05AABB,Solar-WiFi222W0782"
        peer = Answering("bcast", answer, case.get("delay", 0.0))
        res = {}

        async def flow(loop):
            res["value"] = await g.search_inverters()
        run = engine.run_custom({("255.255.255.255", 48899): peer}, flow)
        if run.stop or run.error is not None:
            vs.append((f"C05/entry/{kind}/outcome", f"{tag}: {run.stop or repr(run.error)}"))
        else:
            pr = engine.probes(run.events)
            vs += check_probes(kind, pr, 1, 0, 1, tag, part, "search_answered")
            if res.get("value") != answer or len(pr[0][1]) != 1:
                vs.append((f"C05/entry/{kind}/outcome", f"{tag}: returned {res.get('value')!r} after {len(pr[0][1])} transmissions"))
    elif kind == "discover_detected":
        # (UNKNOWN: the identification probe is answered by a model no family table lists - discover() goes on to probe the families)
        serial = {"ET": "9010KETU000W0000", "DT": "9006KDTU000W0000", "ES": "95048ESU000W0000", "UNKNOWN": "9010KXYZ000W0000",
                  "BLANK": "                "}[case["family"]]
        peer = DiscoveryThenSilent("inv0", info=sims.es_device_info(serial=serial))
        run = engine.run_custom({("inv0", 8899): peer}, lambda loop: g.discover("inv0", 8899, t, r))
        if run.stop:
            vs.append((f"C05/entry/{kind}/hang", f"{tag}: {run.stop}"))
        else:
            pr = engine.probes(run.events)
            # probe 0 is the answered identification request; every later probe must carry the caller's budget
            vs += check_probes(kind, pr[1:], t, r, None, tag, part, "detected_family_probe")
            if len(pr) < 2:
                vs.append((f"C05/entry/{kind}/no-followup", f"{tag}: no request followed the identification answer"))
    elif kind == "connected_then_silent":
        fam, port = case["family"], case["port"]
        peer = make_family_sim(fam, case.get("refuse_probes", False))
        state = {}

        async def flow(loop):
            inv = await (g.connect("inv0", port, family=fam, timeout=t, retries=r) if case["via"] == "connect"
                         else g.connect("inv0", port, timeout=t, retries=r) if case["via"] == "connect_discover"      # (no family: connect() discovers)
                         else g.discover("inv0", port, t, r))
            state["n0"] = len([e for e in loop.events if e[1] == "tx"])
            peer.silent = True
            try:
                await inv.read_runtime_data()
            except g.InverterError:
                pass
            return type(inv).__name__

        run = engine.run_custom({("inv0", port): peer}, flow)
        if run.stop or run.error is not None:
            vs.append((f"C05/entry/{kind}/setup", f"{tag}: {run.stop or repr(run.error)}"))
        else:
            txs = [e for e in run.events if e[1] == "tx"][state["n0"]:]
            pr = engine.probes(txs, strip_txid=(port == 502))
            vs += check_probes(kind, pr[:1], t, r, 1, tag, part, "connected_then_silent")
    else:
        raise ValueError(kind)
    part.evaluations += 1
    part.see(repr(sorted(case.items())))
    for key, msg in vs:
        part.violate(key, msg, {"kind": "entry", "case": case})
    if part.evaluations % 37 == 1:
        part.sample({"entry_case": case, "probes": [(f.hex()[:24], [round(x, 6) for x in ts])
                                                     for f, ts in engine.probes(run.events)][:6]})
    return vs


def make_family_sim(fam, refuse_probes=False):
    if fam == "ET":
        regs = sims.et_device_info("9010KETU000W0000", 10000)
        # (old firmware: the two capability probes of read_device_info are answered with ILLEGAL DATA ADDRESS)
        return sims.ModbusSim("inv0", regs=regs, refused=[(47545, 47571), (47589, 47594)] if refuse_probes else [])
    if fam == "DT":
        regs = sims.dt_device_info("9006KDTU000W0000")
        return sims.ModbusSim("inv0", regs=regs)
    return sims.Aa55Sim("inv0")


# ---- plan --------------------------------------------------------------------------------------------
def plan(tier, seed):
    specs = []
    depth = 3 if tier == "quick" else 4
    grid = [(1, 1), (0.5, 0), (2, 2)] if tier == "quick" else [(1, 0), (1, 1), (1, 3), (2, 2), (0.5, 1), (0.5, 3)]
    for transport in ("udp", "tcp"):
        for ka in (False, True):
            for T, R in grid:
                for newloop in (False, True, "open"):
                    specs.append({"mode": "hist", "transport": transport, "ka": ka, "T": T, "R": R, "depth": depth,
                                  "newloop": newloop})
    for ka in (False, True):
        for T, R in ((7, 0), (6, 1), (0.2, 2), (1, 11), (0.5, 40)):      # (incl. retry budgets well beyond the usual single digits)
            specs.append({"mode": "hist", "transport": "tcp", "ka": ka, "T": T, "R": R, "depth": 1, "newloop": False})
            specs.append({"mode": "hist", "transport": "udp", "ka": ka, "T": T, "R": R, "depth": 1, "newloop": False})
    specs.append({"mode": "entry", "tier": tier})
    return specs


def run_shard(spec):
    part = Part()
    if spec["mode"] == "hist":
        cs = classes(spec["R"])
        maxdepth = spec["depth"] if len(cs) ** spec["depth"] <= 5000 else spec["depth"] - 1
        for d in range(0, maxdepth + 1):
            for prefix in itertools.product(cs, repeat=d):
                sc = scenario(spec["transport"], spec["ka"], spec["T"], spec["R"], list(prefix), spec["newloop"])
                run_history(sc, part)
                if d in (1, 2) and not spec["newloop"] and all(c in SAME_OK for c in prefix):
                    # the same history with every request being the SAME command (an unchanged poll repeated)
                    run_history(scenario(spec["transport"], spec["ka"], spec["T"], spec["R"], list(prefix), False, same_reg=True), part)
                    part.count("same_command_repeated")
    else:
        cross_function_part(part)
        ts = (0.25, 1, 2, 3)      # (sub-second budgets too: a floor or rounding applied by one family class would show here)
        rs = (0, 1, 2, 3)
        for t in ts:
            for r in rs:
                for fam in ("ET", "DT", "ES", "EH", "MS", "BP"):
                    for port in (8899, 502):
                        if fam in ("ES", "BP") and port == 502:
                            continue
                        entry_case({"kind": "connect_silent", "family": fam, "port": port, "timeout": t, "retries": r}, part)
                for port in (8899, 502):
                    entry_case({"kind": "discover_silent", "port": port, "timeout": t, "retries": r}, part)
                    entry_case({"kind": "discover_silent", "port": port, "timeout": t, "retries": r, "via": "connect"}, part)
                for fam in ("UNKNOWN", "BLANK"):
                    entry_case({"kind": "discover_detected", "family": fam, "timeout": t, "retries": r}, part)
                for fam in ("ET", "DT", "ES"):
                    entry_case({"kind": "discover_detected", "family": fam, "timeout": t, "retries": r}, part)
                    for via in ("connect", "discover", "connect_discover"):
                        for port in ((8899, 502) if fam != "ES" else (8899,)):
                            if via != "connect" and port == 502 and fam == "ES":
                                continue
                            entry_case({"kind": "connected_then_silent", "family": fam, "port": port, "via": via,
                                        "timeout": t, "retries": r}, part)
                            if fam == "ET":
                                entry_case({"kind": "connected_then_silent", "family": fam, "port": port, "via": via,
                                            "timeout": t, "retries": r, "refuse_probes": True}, part)
        for r in sorted({v for v in env.harvest_ints() if 4 <= v <= 64} - {11, 30}):
            # (a cap or special case on the budget sits at some constant of the source: every small one is tried as a budget)
            entry_case({"kind": "connect_silent", "family": "ET", "port": 8899 if r % 2 else 502, "timeout": 1, "retries": r}, part)
        for r in (11, 30):           # large retry budgets are honoured in full as well
            for fam in ("ET", "DT", "ES"):
                for port in ((8899, 502) if fam != "ES" else (8899,)):
                    entry_case({"kind": "connect_silent", "family": fam, "port": port, "timeout": 1, "retries": r}, part)
                    entry_case({"kind": "connected_then_silent", "family": fam, "port": port, "via": "connect", "timeout": 1, "retries": r}, part)
            entry_case({"kind": "discover_silent", "port": 8899, "timeout": 1, "retries": r}, part)
            part.count("large_retry_budgets")
        entry_case({"kind": "search", "timeout": 1, "retries": 0}, part)
        for d in (0.0, 0.4, 0.99):
            entry_case({"kind": "search_answered", "timeout": 1, "retries": 0, "delay": d}, part)
    return part


def replay(case):
    part = Part()
    if case["kind"] == "crossfc":
        cross_function_part(part)
        return [{"key": v["key"], "msg": v["msg"]} for v in part.violations]
    if case["kind"] == "history":
        vs = run_history(case["scenario"], part)
    else:
        vs = entry_case(case["case"], part)
    return [{"key": k, "msg": m} for k, m in vs]
