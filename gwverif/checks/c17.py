"""C17  A written setting reads back as written and touches only its own registers (exploration)."""
from __future__ import annotations

import random
from datetime import datetime
from fractions import Fraction

from .. import blocks, configs, engine, env, models
from .. import refsensors as rs
from ..runner import Part

PROPERTY = "C17"
LEVEL = "exploration"
RULE = ("(encoder level) for every setting of ET, DT and the register-addressed settings of ES whose type defines an encoding: "
        "ALL representable values of 1- and 2-byte settings and boundary + random values of 4/6/8/12-byte settings are encoded by the "
        "real encode_value, compared with an independent reference encoding, and decoded back by the real read_value; (end to end) "
        "write_setting(id, v) then read_setting(id) through the real transports (Modbus RTU/UDP, Modbus/TCP, AA55) against a simulated "
        "register file with arbitrary (and boundary) prior contents that change between writes on the same inverter object, also on a kept-alive connection to an inverter answering 0.6 timeouts late: exactly one write frame, "
        "addressed to the setting's registers, carrying the reference encoding; no other register changes (other half of a shared "
        "register preserved); the value reads back; a write the inverter refuses with a non-address exception must not be reported as success; distinct = distinct (family, transport, setting id, value class) tuples")
ASSUMPTIONS = ["values whose encoding is the type's 'no value' sentinel (Integer 65535, Voltage/Current 6553.5, Long 2^32-1) are "
               "outside the readable domain: only the write part is asserted for them",
               "ES: only the register-addressed settings (eco-mode groups and switches; 011A/0239 over AA55 for v1, Modbus for v2)"]
MUST = ["es_eco_v2_groups_at_version_edges", "overlapping_write_calls", "write_applied_but_answered_with_exception", "sensors_polled_before_settings", "write_after_recovered_fragment_loss", "switch_seen_in_its_group", "refused_writes", "refused_rmw_reads", "byte_setting_already_holds_value", "dt_phase_pairs", "encoder_values", "e2e_writes", "e2e_readbacks", "byte_settings_rmw", "negative_values", "multi_register_writes",
        "aa55_writes", "tcp_writes", "settings_covered"]
EXHAUSTIVE = {"quick": False, "thorough": False}


def ref_encode(sn, v, prior: bytes = None) -> bytes:
    t = type(sn).__name__
    if t in ("Voltage", "Current"):
        return int(round(Fraction(str(v)) * 10)).to_bytes(2, "big", signed=False)
    if t == "CurrentS":
        return int(round(Fraction(str(v)) * 10)).to_bytes(2, "big", signed=True)
    if t == "Integer":
        return int(v).to_bytes(2, "big", signed=False)
    if t == "IntegerS":
        return int(v).to_bytes(2, "big", signed=True)
    if t == "Long":
        return int(v).to_bytes(4, "big", signed=False)
    if t == "LongS":
        return int(v).to_bytes(4, "big", signed=True)
    if t == "Decimal":
        return int(round(Fraction(str(v)) * sn.scale)).to_bytes(2, "big", signed=True)
    if t == "ByteH":
        return bytes([int(v) & 0xFF, prior[1]])
    if t == "ByteL":
        return bytes([prior[0], int(v) & 0xFF])
    if t == "Timestamp":
        return bytes([v.year - 2000, v.month, v.day, v.hour, v.minute, v.second])
    if t in ("EcoModeV1", "EcoModeV2", "Schedule", "PeakShavingMode"):
        return bytes(v)
    raise rs.NoRef(t)


# 16-bit values whose bytes mean something to the framings (AA 55 header, unit + function code, exception function codes)
FRAMING_WORDS = {0xAA55, 0x55AA, 0xAAAA, 0x5555, 0xF703, 0xF706, 0xF710, 0x7F03, 0xF783, 0xF786, 0x0300, 0x0600, 0x1000, 0xC07F, 0x7FC0}


def domain(sn, rnd, n, full=False):
    """Values of the encodable domain: (value, class)."""
    t = type(sn).__name__
    if t in ("Integer",):
        vals = range(65536) if full else sorted({0, 1, 2, 99, 100, 255, 256, 32767, 32768, 65534, 65535} | FRAMING_WORDS | {rnd.randrange(65536) for _ in range(n)})
        return [(v, "sentinel" if v == 65535 else "val") for v in vals]
    if t in ("Voltage", "Current"):
        ks = range(65536) if full else sorted({0, 1, 5, 10, 2345, 32767, 32768, 65534, 65535} | FRAMING_WORDS | {rnd.randrange(65536) for _ in range(n)})
        return [(k / 10, "sentinel" if k == 65535 else "val") for k in ks]
    if t in ("CurrentS", ):
        ks = range(-32768, 32768) if full else sorted({0, 1, -1, -32768, 32767} | {rnd.randrange(-32768, 32768) for _ in range(n)})
        return [(k / 10, "neg" if k < 0 else "val") for k in ks]
    if t == "IntegerS":
        ks = range(-32768, 32768) if full else sorted({0, 1, -1, -32768, 32767} | {w - 65536 if w > 32767 else w for w in FRAMING_WORDS} | {rnd.randrange(-32768, 32768) for _ in range(n)})
        return [(k, "neg" if k < 0 else "val") for k in ks]
    if t == "Decimal":
        ks = range(-32768, 32768) if full else sorted({0, 1, -1, 57, 29, 113, -995, -32768, 32767} | {rnd.randrange(-32768, 32768) for _ in range(n)})
        return [(k / sn.scale, "neg" if k < 0 else "val") for k in ks]
    if t in ("ByteH", "ByteL"):
        return [(v, "neg" if v < 0 else "val") for v in range(-128, 128)]
    if t == "Long":
        vals = [0, 1, 65535, 65536, 0x7FFFFFFF, 0x80000000, 0xFFFFFFFE, 0xFFFFFFFF, 0x0000AA55, 0xAA550000, 0x00AA5500, 0xFFFF0000, 0x0001FFFF] + \
            [rnd.randrange(2 ** 32) for _ in range(n)]
        return [(v, "sentinel" if v == 0xFFFFFFFF else "val") for v in vals]
    if t == "LongS":
        vals = [0, 1, -1, -2 ** 31, 2 ** 31 - 1] + [rnd.randrange(-2 ** 31, 2 ** 31) for _ in range(n)]
        return [(v, "neg" if v < 0 else "val") for v in vals]
    if t == "Timestamp":
        vals = [datetime(2000, 1, 1, 0, 0, 0), datetime(2099, 12, 31, 23, 59, 59), datetime(2024, 2, 29, 12, 30, 15),
                datetime(2100, 1, 1, 0, 0, 0), datetime(2127, 6, 15, 1, 2, 3), datetime(2128, 6, 15, 1, 2, 3), datetime(2255, 12, 31, 23, 59, 59)]
        for _ in range(n):
            vals.append(datetime(2000 + rnd.randrange(256), rnd.randrange(1, 13), rnd.randrange(1, 29), rnd.randrange(24), rnd.randrange(60), rnd.randrange(60)))
        return [(v, "val") for v in vals]
    if t == "EcoModeV1":
        out = []
        for _ in range(n + 4):
            b = bytes([rnd.choice((rnd.randrange(24), 48)), rnd.randrange(60), rnd.choice((rnd.randrange(24), 48)), rnd.randrange(60)]) + \
                rnd.randrange(-100, 101).to_bytes(2, "big", signed=True) + bytes([rnd.choice((0, 0xFF)), rnd.choice((0, 0x7F, 0xFF, rnd.randrange(128)))])
            out.append((b, "val"))
        return out
    if t in ("EcoModeV2", "Schedule", "PeakShavingMode"):
        out = []
        for _ in range(n + 4):
            typ = rnd.choice((0, 0, 6, 3)) if t != "PeakShavingMode" else 3
            onoff = rnd.choice((typ, 255 - typ))
            power = rnd.randrange(-100, 101) if typ == 0 else (rnd.randrange(-1000, 1001) if typ == 6 else rnd.randrange(-32768, 32768))
            b = bytes([rnd.choice((rnd.randrange(24), 48)), rnd.randrange(60), rnd.choice((rnd.randrange(24), 48)), rnd.randrange(60),
                       onoff, rnd.choice((0, 0x7F, 0xFF, rnd.randrange(128)))]) + power.to_bytes(2, "big", signed=True) + \
                rnd.randrange(0, 101).to_bytes(2, "big") + rnd.choice((0, 0x0FFF, rnd.randrange(0x1000))).to_bytes(2, "big")
            out.append((b, "val"))
        return out
    raise rs.NoRef(t)


def value_matches(sn, got, v, enc: bytes):
    t = type(sn).__name__
    if t in ("EcoModeV1", "EcoModeV2", "Schedule", "PeakShavingMode"):
        f = {"start_h": rs.s(enc[0:1]), "start_m": rs.s(enc[1:2]), "end_h": rs.s(enc[2:3]), "end_m": rs.s(enc[3:4])}
        if t == "EcoModeV1":
            f.update(power=rs.s(enc[4:6]), on_off=rs.s(enc[6:7]), day_bits=rs.s(enc[7:8]))
        else:
            f.update(on_off=rs.s(enc[4:5]), day_bits=rs.s(enc[5:6]), power=rs.s(enc[6:8]), soc=rs.s(enc[8:10]), month_bits=rs.s(enc[10:12]))
        return all(getattr(got, k, "<none>") == val for k, val in f.items())
    if isinstance(v, float):
        return isinstance(got, (int, float)) and abs(got - v) < 1e-9
    return got == v


def settings_of(g, fam):
    tabs = blocks.settings_tables(g, fam)
    out = []
    for name, tab in tabs.items():
        for sn in tab:
            if fam == "ES" and sn.offset < 1000:
                continue
            out.append((name, sn))
    return out


def encoder_part(spec, part):
    g = env.goodwe()
    rnd = random.Random(spec["seed"])
    PR = g.protocol.ProtocolResponse
    for fam in ("ET", "DT", "ES"):
        for name, sn in settings_of(g, fam):
            try:
                dom = domain(sn, rnd, spec["n"], full=spec["full"] or type(sn).__name__ in ("ByteH", "ByteL"))
            except rs.NoRef:
                continue
            if hash((fam, sn.id_, name)) % spec["shards"] != spec["shard"]:
                continue
            part.count("settings_covered")
            for v, cls in dom:
                prior = bytes([rnd.randrange(256), rnd.randrange(256)])
                part.evaluations += 1
                part.count("encoder_values")
                case = {"enc": True, "family": fam, "table": name, "setting": sn.id_, "value": repr(v), "prior": prior.hex()}
                try:
                    enc = sn.encode_value(v, prior) if sn.size_ == 1 else sn.encode_value(v)
                except NotImplementedError:
                    break
                except Exception as e:      # noqa
                    part.violate(f"C17/{fam}/encode-raises/{type(sn).__name__}", f"{fam} {sn.id_}.encode_value({v!r}) raised {type(e).__name__}: {e}", case)
                    continue
                want = ref_encode(sn, v, prior)
                if bytes(enc) != want:
                    part.violate(f"C17/{fam}/wrong-encoding/{type(sn).__name__}",
                                 f"{fam} {sn.id_} ({type(sn).__name__}): encode_value({v!r}) = {bytes(enc).hex()}, reference encoding {want.hex()}", case)
                    continue
                if cls == "neg":
                    part.count("negative_values")
                if cls != "sentinel":
                    try:
                        back = sn.read_value(PR(bytes(enc), None))
                    except Exception as e:      # noqa
                        part.violate(f"C17/{fam}/decode-of-own-encoding-raises/{type(sn).__name__}", f"{fam} {sn.id_}: read_value({bytes(enc).hex()}) raised {type(e).__name__}: {e}", case)
                        continue
                    if not value_matches(sn, back, v, bytes(enc)):
                        part.violate(f"C17/{fam}/readback-differs/{type(sn).__name__}",
                                     f"{fam} {sn.id_}: {v!r} encodes to {bytes(enc).hex()} which decodes to {back!r}", case)
            part.see(f"enc|{fam}|{sn.id_}|{type(sn).__name__}")
    part.sample({"mode": "encoder level", "evaluations": part.evaluations, "settings": part.counters.get("settings_covered")})


def e2e_part(spec, part):
    g = env.goodwe()
    rnd = random.Random(spec["seed"])
    fam, port = spec["family"], spec["port"]
    variant = spec.get("variant", "v2")
    if fam == "ET":
        sim = models.et_sim(tag=spec.get("tag", "ETU"), refused_blocks=[] if variant == "v2" else ["eco_v2", "peak_shaving"])
    elif fam == "DT":
        sim = models.dt_sim(tag=spec.get("tag", "DTU"))
    else:
        sim = models.es_sim(fw=b"2225F" if variant == "v2" else b"02525")
    tagtxt = f"{fam} port={port} {variant}"

    async def flow(loop):
        inv = models.family_cls(g, fam)("inv0", port, 0, 1, 1)
        if spec.get("slow"):
            # kept-alive connection and an inverter that answers 0.6 timeouts late (in time): an earlier request's timer that was
            # left armed would expire inside the following request and make the library send the write twice
            inv.set_keep_alive(True)
            sim.delay = 0.6
        await inv.read_device_info()
        if rnd.random() < 0.5:
            # a polling application: the runtime data and the sensors whose ids coincide with setting ids (work_mode, battery_modules,
            # at other registers than the settings) were read on this object before any setting is touched
            try:
                await inv.read_runtime_data()
            except (ValueError, g.InverterError):
                pass
            for sid_ in sorted({x.id_ for x in inv.sensors()} & {x.id_ for x in inv.settings()}):
                try:
                    await inv.read_sensor(sid_)
                except (ValueError, g.InverterError):
                    pass
            part.count("sensors_polled_before_settings")
        st = list(inv.settings())
        rnd.shuffle(st)
        for sn in st:
            if fam == "ES" and sn.offset < 1000:
                continue
            try:
                dom = domain(sn, rnd, spec["n"])
            except rs.NoRef:
                continue
            rnd.shuffle(dom)
            span = sn.size_
            nregs = (span + 1) // 2
            for v, cls in dom[:spec["per_setting"]]:
                # arbitrary prior contents around and inside the setting's registers
                for a in range(sn.offset - 2, sn.offset + nregs + 2):
                    sim.regs[a] = rnd.choice((rnd.randrange(65536), rnd.randrange(65536), 0xFFFF, 0x0000, 0xFF00, 0x00FF, 0x7FFF, 0x8000))
                if sn.id_.startswith("eco_mode_") and sn.id_.endswith("_switch") and rnd.random() < 0.6:
                    # the rest of the switch's group holds a decodable schedule (so that the group can be read back afterwards)
                    grp_ = next((x for x in st if x.id_ == sn.id_[:-len("_switch")]), None)
                    if grp_ is not None:
                        base = grp_.offset
                        sim.regs[base], sim.regs[base + 1] = 0x0000, 0x173B
                        if grp_.size_ == 12:
                            sim.regs[base + 2] = (sim.regs[base + 2] & 0xFF00) | rnd.choice((0x7F, 0x15, 0x00))
                            sim.regs[base + 3], sim.regs[base + 4], sim.regs[base + 5] = rnd.randrange(0, 101), rnd.randrange(0, 101), 0
                        else:
                            sim.regs[base + 2] = rnd.randrange(0, 101)
                            sim.regs[base + 3] = (sim.regs[base + 3] & 0xFF00) | rnd.choice((0x7F, 0x2A, 0x00))
                if span == 1 and rnd.random() < 0.25 and isinstance(v, int) and -128 <= v <= 255:
                    # the setting's byte already holds the value that is going to be written (still exactly one write is due)
                    own_hi = type(sn).__name__.endswith("H")
                    cur = sim.regs[sn.offset]
                    sim.regs[sn.offset] = ((v & 0xFF) << 8 | (cur & 0xFF)) if own_hi else ((cur & 0xFF00) | (v & 0xFF))
                    part.count("byte_setting_already_holds_value")
                if rnd.random() < 0.12 and not (fam == "ES" and sn.offset < 30000):
                    # just before the write: a read whose answer lost its tail on the way (the retransmission recovers it)
                    sim.lose_tail = 5 if port != 502 else 9
                    try:
                        await inv.read_setting(sn.id_)
                    except Exception:       # noqa
                        pass
                    sim.lose_tail = 0
                    part.count("write_after_recovered_fragment_loss")
                prior = sim.get_bytes(sn.offset, nregs)
                before = sim.snapshot()
                w0 = len(sim.writes)
                case = {"e2e": True, "spec": spec, "setting": sn.id_, "value": repr(v)}
                part.evaluations += 1
                if rnd.random() < 0.12 and not (fam == "ES" and sn.offset < 30000) and cls != "sentinel":
                    # the inverter refuses this write with a Modbus exception other than ILLEGAL DATA ADDRESS: write_setting must not
                    # report success (the premise "after write_setting succeeds" would otherwise be claimed for a write never performed)
                    code = rnd.choice((3, 4, 6))
                    if span == 1 and rnd.random() < 0.5:
                        # ... or it refuses the READ half of the read-modify-write of a one-byte setting and would accept the write
                        sim.exc_map[(3, sn.offset, 1)] = code
                        try:
                            await inv.write_setting(sn.id_, v)
                            rmw = "returned normally"
                        except Exception:       # noqa
                            rmw = None
                        del sim.exc_map[(3, sn.offset, 1)]
                        part.count("refused_rmw_reads")
                        after_ = sim.snapshot()
                        if rmw and {a for a in set(before) | set(after_) if before.get(a) != after_.get(a)} - {sn.offset}:
                            part.violate(f"C17/{fam}/foreign-register-changed", f"{tagtxt}: write_setting('{sn.id_}', {v!r}) with the register read refused", case)
                        elif rmw and len(sim.writes) > w0:
                            new, old = sim.regs[sn.offset], int.from_bytes(prior[:2], "big")
                            other_kept = (new & 0x00FF) == (old & 0x00FF) if type(sn).__name__.endswith("H") else (new & 0xFF00) == (old & 0xFF00)
                            if not other_kept:
                                part.violate(f"C17/{fam}/other-half-of-register-changed",
                                             f"{tagtxt}: the read of register {sn.offset} was refused (exception {code}), write_setting('{sn.id_}', {v!r}) went on and "
                                             f"changed the register from {old:04x} to {new:04x}: the other byte was not preserved", case)
                        continue
                    if rnd.random() < 0.4:
                        # ... or it APPLIES the write and answers with an exception frame all the same (5 ACKNOWLEDGE = accepted, still
                        # processing; buggy firmware with other codes): whatever write_setting reports, the inverter got ONE write
                        code = rnd.choice((5, 5, 6, 4, 11))
                        sim.ack_exc = {sn.offset: code}
                        try:
                            await inv.write_setting(sn.id_, v)
                        except NotImplementedError:
                            sim.ack_exc = {}
                            break
                        except Exception:       # noqa
                            pass
                        sim.ack_exc = {}
                        part.count("write_applied_but_answered_with_exception")
                        if len(sim.writes) - w0 > 1:
                            part.violate(f"C17/{fam}/write-transmitted-twice",
                                         f"{tagtxt}: the inverter applied the write of '{sn.id_}' and answered with exception {code}: write_setting('{sn.id_}', "
                                         f"{v!r}) made it receive {len(sim.writes) - w0} writes {[(w[1], w[2]) for w in sim.writes[w0:]][:3]}", case)
                        continue
                    sim.exc_map[(6, sn.offset)] = sim.exc_map[(16, sn.offset)] = code
                    try:
                        await inv.write_setting(sn.id_, v)
                        refused_outcome = "returned normally"
                    except NotImplementedError:
                        refused_outcome = None
                    except Exception as e:      # noqa
                        refused_outcome = None
                    del sim.exc_map[(6, sn.offset)], sim.exc_map[(16, sn.offset)]
                    part.count("refused_writes")
                    if refused_outcome and len(sim.writes) == w0:
                        part.violate(f"C17/{fam}/refused-write-reported-as-success",
                                     f"{tagtxt}: the inverter answered the write of '{sn.id_}' with Modbus exception {code} and stored nothing, yet "
                                     f"write_setting('{sn.id_}', {v!r}) returned normally", case)
                    continue
                try:
                    await inv.write_setting(sn.id_, v)
                except NotImplementedError:
                    break
                except Exception as e:      # noqa
                    part.violate(f"C17/{fam}/write-raises/{type(sn).__name__}", f"{tagtxt}: write_setting('{sn.id_}', {v!r}) raised {type(e).__name__}: {str(e)[:80]}", case)
                    continue
                part.count("e2e_writes")
                if port == 502:
                    part.count("tcp_writes")
                ws = sim.writes[w0:]
                try:
                    want = ref_encode(sn, v, prior[:2])
                except rs.NoRef:
                    break
                want_words = [int.from_bytes(want[i:i + 2], "big") for i in range(0, len(want), 2)]
                if len(ws) != 1:
                    part.violate(f"C17/{fam}/write-count/{type(sn).__name__}", f"{tagtxt}: write_setting('{sn.id_}', {v!r}) caused {len(ws)} writes: {[(w[1], w[2]) for w in ws]}", case)
                elif ws[0][1] != sn.offset or ws[0][2] != want_words:
                    part.violate(f"C17/{fam}/wrong-write/{type(sn).__name__}",
                                 f"{tagtxt}: write_setting('{sn.id_}', {v!r}) wrote {[hex(x) for x in ws[0][2]]} to register {ws[0][1]}, "
                                 f"expected {[hex(x) for x in want_words]} at {sn.offset} (prior content {prior.hex()})", case)
                after = sim.snapshot()
                changed = {a for a in set(before) | set(after) if before.get(a) != after.get(a)}
                foreign = sorted(a for a in changed if not (sn.offset <= a < sn.offset + nregs))
                if foreign:
                    part.violate(f"C17/{fam}/foreign-register-changed", f"{tagtxt}: write_setting('{sn.id_}', {v!r}) also changed registers {foreign[:5]}", case)
                if span == 1:
                    part.count("byte_settings_rmw")
                if len(want_words) > 1:
                    part.count("multi_register_writes")
                if fam == "ES" and sn.offset < 30000:
                    part.count("aa55_writes")
                if cls == "neg" or (isinstance(v, int) and v < 0):
                    part.count("negative_values")
                if cls == "sentinel":
                    continue
                try:
                    got = await inv.read_setting(sn.id_)
                except Exception as e:      # noqa
                    part.violate(f"C17/{fam}/readback-raises/{type(sn).__name__}", f"{tagtxt}: read_setting('{sn.id_}') after writing {v!r} raised {type(e).__name__}: {str(e)[:80]}", case)
                    continue
                part.count("e2e_readbacks")
                if sn.id_.startswith("eco_mode_") and sn.id_.endswith("_switch") and isinstance(v, int):
                    # the switch of group N is the on/off byte of group N: the group itself must now show it (documented layout:
                    # 12-byte groups at 47547/47553/47559/47565 with the switch in the 3rd register, 8-byte groups with it in the 4th)
                    gid = sn.id_[:-len("_switch")]
                    try:
                        grp = await inv.read_setting(gid)
                        shown = grp.on_off
                    except Exception:       # noqa  (group content undecodable: nothing to compare)
                        shown = None
                    if shown is not None:
                        part.count("switch_seen_in_its_group")
                        if (shown & 0xFF) != (v & 0xFF):
                            part.violate(f"C17/{fam}/switch-not-in-its-group",
                                         f"{tagtxt}: wrote {sn.id_}={v!r} (register {sn.offset}), but group {gid} then shows on/off byte {shown}", case)
                if not value_matches(sn, got, v, want):
                    part.violate(f"C17/{fam}/readback-differs/{type(sn).__name__}", f"{tagtxt}: wrote {sn.id_}={v!r}, read back {got!r}", case)
            part.see(f"e2e|{fam}|{port}|{variant}|{sn.id_}")

    run = engine.run_custom({("inv0", port): sim}, flow, vtime_cap=20000, tx_cap=200000)
    if run.stop or run.error is not None:
        part.violate(f"C17/{fam}/run-failed", f"{tagtxt}: {run.stop or repr(run.error)[:200]}", {"e2e": True, "spec": spec})
    if sim.bad:
        part.violate(f"C17/{fam}/undecodable-request", f"{tagtxt}: simulator could not decode {sim.bad[0][1]}", {"e2e": True, "spec": spec})
    part.sample({"mode": "end to end", "family": fam, "port": port, "variant": variant, "writes": part.counters.get("e2e_writes"),
                 "last_writes": [(w[1], [hex(x) for x in w[2]]) for w in sim.writes[-3:]]})


def es_layout_part(part):
    """ES-protocol units whose firmware is documented to have the 12-byte eco-mode groups at Modbus registers 47547.. (ARM >= 14 and DSP >= 22 on
    ES, >= 11 on EM, >= 10 on BP units) - at the edges of those version ranges: a 12-byte group written through write_setting('eco_mode_N') goes out as ONE
    write of exactly those bytes to the group's registers and reads back"""
    g = env.goodwe()
    for tag, dsp_min in (("ESU", 22), ("EMU", 11), ("BPS", 10)):
        for dsp, arm in ((dsp_min, 14), (dsp_min, 15), (dsp_min + 3, 14), (dsp_min, 35), (99, 14)):
            fw = f"{dsp:02d}{dsp:02d}".encode() + "0123456789ABCDEFGHIJKLMNOPQRSTUVWXYZ"[arm].encode()
            sim = models.es_sim(fw=fw, tag=tag)
            out = {}
            value = bytes([1, 30, 22, 15, 0xFF, 0x1F]) + (-45).to_bytes(2, "big", signed=True) + (80).to_bytes(2, "big") + b"\x00\x00"

            async def flow(loop):
                inv = g.ES("inv0", 8899, 0, 1, 1)
                await inv.read_device_info()
                for k, base in ((1, 47547), (3, 47559)):
                    w0 = len(sim.writes)
                    try:
                        await inv.write_setting(f"eco_mode_{k}", value)
                        back = await inv.read_setting(f"eco_mode_{k}")
                        out[k] = ("ok", sim.writes[w0:], back)
                    except Exception as e:      # noqa
                        out[k] = (f"{type(e).__name__}: {e}", sim.writes[w0:], None)
            run = engine.run_custom({("inv0", 8899): sim}, flow, vtime_cap=600, tx_cap=600)
            part.evaluations += 1
            ctx = f"ES-protocol unit {tag} firmware {fw.decode()} (DSP {dsp}, ARM {arm}: documented to have the 12-byte eco-mode groups)"
            case = {"es_layout": True}
            if run.stop or run.error is not None:
                part.violate("C17/ES/run-failed", f"{ctx}: {run.stop or repr(run.error)}", case)
                continue
            for k, base in ((1, 47547), (3, 47559)):
                how, writes, back = out.get(k, ("not run", [], None))
                want = [int.from_bytes(value[2 * i:2 * i + 2], "big") for i in range(6)]
                if how != "ok" or [(w[1], list(w[2])) for w in writes] != [(base, want)]:
                    part.violate("C17/ES/wrong-write/Schedule", f"{ctx}: write_setting('eco_mode_{k}', {value.hex()}) ended {how}; writes that reached the inverter: "
                                                                 f"{[(w[1], list(w[2])) for w in writes]}, expected one write of {want} to {base}", case)
                else:
                    part.count("es_eco_v2_groups_at_version_edges")
            part.see(f"eslayout|{tag}|{dsp}|{arm}")


def dt_pair_part(spec, part):
    if spec.get("n") and not spec.get("i_only"):
        es_layout_part(part)
    """DT documents grid_export_limit as Long@40328 (W) on single-phase and Integer@40336 (%) on three-phase models: with one object of
    each kind alive, a write on either must still go to ITS registers only."""
    g = env.goodwe()
    rnd = random.Random(spec["seed"])
    for i in range(spec["n"]):
        simA, simB = models.dt_sim("invA", tag=rnd.choice(("DSN", "MSU", "NSU"))), models.dt_sim("invB", tag=rnd.choice(("DTU", "DTS", "DTN")))
        order = rnd.choice(("AB", "BA"))
        vA, vB = rnd.randrange(0, 2 ** 31), rnd.randrange(0, 65535)
        out = {}

        async def flow(loop):
            A, B = g.DT("invA", 8899, 0, 1, 0), g.DT("invB", 8899, 0, 1, 0)
            for x in order:
                await (A if x == "A" else B).read_device_info()
            for x in order[::-1] if rnd.random() < 0.5 else order:
                inv, v = (A, vA) if x == "A" else (B, vB)
                await inv.write_setting("grid_export_limit", v)
                out[x] = await inv.read_setting("grid_export_limit")

        run = engine.run_custom({("invA", 8899): simA, ("invB", 8899): simB}, flow)
        part.evaluations += 1
        part.count("dt_phase_pairs")
        part.see(f"dtpair|{order}")
        case = {"dtpair": True, "seed": spec["seed"], "i": i}
        if run.stop or run.error is not None:
            part.violate("C17/DT/run-failed", f"DT pair: {run.stop or repr(run.error)[:120]}", case)
            continue
        wa = [(w[1], w[2]) for w in simA.writes]
        wb = [(w[1], w[2]) for w in simB.writes]
        if wa != [(40328, [vA >> 16, vA & 0xFFFF])]:
            part.violate("C17/DT/wrong-write/Long", f"single-phase DT (next to a three-phase one, device info order {order}): "
                         f"write_setting('grid_export_limit', {vA}) produced writes {wa}, expected one multi write of 2 registers at 40328", case)
        if wb != [(40336, [vB])]:
            part.violate("C17/DT/wrong-write/Integer", f"three-phase DT (next to a single-phase one, order {order}): "
                         f"write_setting('grid_export_limit', {vB}) produced writes {wb}, expected one write at 40336", case)
        if out.get("A") != vA or out.get("B") != vB:
            part.violate("C17/DT/readback-differs/pair", f"DT pair (order {order}): read back {out} instead of A={vA}, B={vB}", case)


def overlapping_writes_part(spec, part):
    """two or three write_setting() calls on DIFFERENT settings of one inverter object overlap in time (an application applying a profile with
    asyncio.gather; the inverter takes 0.2 s per answer): every setting still receives exactly one write carrying its value, reads back, and
    nothing else changes"""
    import asyncio
    g = env.goodwe()
    rnd = random.Random(spec["seed"])
    for it in range(spec["n"]):
        fam = rnd.choice(("ET", "ET", "DT", "ES"))
        port = 8899 if fam == "ES" else rnd.choice((8899, 502))
        sim = models.family_sim(fam, **({"fw": b"2225F"} if fam == "ES" else {}))
        sim.delay = rnd.choice((0.2, 0.05, 0.6))
        ka = rnd.random() < 0.5
        pool = {"ET": [("grid_export_limit", 1234), ("battery_discharge_depth", 45), ("battery_capacity", 123), ("eco_mode_2_switch", -1),
                       ("backup_supply", 1), ("fast_charging_soc", 77)],
                "DT": [("grid_export_limit", 61), ("grid_export", 1), ("shadow_scan", 1)],
                "ES": [("eco_mode_1_switch", -1), ("eco_mode_3_switch", 0), ("eco_mode_2_switch", -1)]}[fam]
        chosen = rnd.sample(pool, min(len(pool), rnd.choice((2, 3))))
        offs = [rnd.choice((0.0, 0.01, 0.1, 0.25)) for _ in chosen]
        res = {}

        async def flow(loop):
            inv = models.family_cls(g, fam)("inv0", port, 0, 1, 1)
            inv.set_keep_alive(ka)
            await inv.read_device_info()
            known = {x.id_: x for x in inv.settings()}
            todo = [(sid, v, o) for (sid, v), o in zip(chosen, offs) if sid in known]
            res["todo"] = [(sid, v, known[sid].offset) for sid, v, _ in todo]
            w0 = len(sim.writes)

            async def one(sid, v, off):
                await asyncio.sleep(off)
                try:
                    await inv.write_setting(sid, v)
                    return "ok"
                except Exception as e:      # noqa
                    return type(e).__name__
            res["out"] = await asyncio.gather(*[one(*t) for t in todo])
            res["writes"] = [(w[1], list(w[2])) for w in sim.writes[w0:]]
            res["back"] = []
            for sid, v, _ in todo:
                try:
                    res["back"].append(await inv.read_setting(sid))
                except Exception as e:      # noqa
                    res["back"].append(type(e).__name__)
        run = engine.run_custom({("inv0", port): sim}, flow, vtime_cap=600, tx_cap=600)
        part.evaluations += 1
        case = {"overlap": True, "seed": spec["seed"], "i": it}
        tagtxt = f"{fam} port={port} keep_alive={ka} answers after {sim.delay}s"
        if run.stop or run.error is not None:
            part.violate(f"C17/{fam}/run-failed", f"{tagtxt}: overlapping writes {chosen} at offsets {offs}: {run.stop or repr(run.error)[:120]}", case)
            continue
        if len(res.get("todo", [])) < 2:
            continue
        part.count("overlapping_write_calls")
        part.see(f"overlap|{fam}|{port}|{ka}|{len(res['todo'])}")
        for (sid, v, reg), how, back in zip(res["todo"], res["out"], res["back"]):
            mine = [w for w in res["writes"] if w[0] == reg]
            if how != "ok":
                part.violate(f"C17/{fam}/write-raises/overlapping", f"{tagtxt}: write_setting('{sid}', {v}) overlapping with {[t[0] for t in res['todo']]}: {how}", case)
            elif len(mine) != 1:
                part.violate(f"C17/{fam}/write-transmitted-twice",
                             f"{tagtxt}: write_setting('{sid}', {v}) overlapping with other write_setting calls (offsets {offs}): register {reg} received "
                             f"{len(mine)} writes {mine[:3]} (all writes: {res['writes'][:6]})", case)
            elif back != v:
                part.violate(f"C17/{fam}/readback-differs/overlapping", f"{tagtxt}: write_setting('{sid}', {v}) overlapping with others: reads back {back!r}", case)
        extra = [w for w in res["writes"] if w[0] not in {t[2] for t in res["todo"]}]
        if extra:
            part.violate(f"C17/{fam}/foreign-register-changed", f"{tagtxt}: overlapping writes {res['todo']}: registers {extra[:3]} were written as well", case)


def plan(tier, seed):
    specs = []
    nsh = 4 if tier == "quick" else 16
    for i in range(nsh):
        specs.append({"mode": "enc", "seed": f"{seed}:C17:enc:{i}", "shards": nsh, "shard": i, "n": 300 if tier == "quick" else 6000,
                      "full": tier != "quick"})
    specs.append({"mode": "dtpair", "seed": f"{seed}:C17:dtpair", "n": 20 if tier == "quick" else 200})
    for i in range(1 if tier == "quick" else 8):
        specs.append({"mode": "overlap", "seed": f"{seed}:C17:overlap:{i}", "n": 60 if tier == "quick" else 600})
    per = 10 if tier == "quick" else 300
    for fam, port, variant in (("ET", 8899, "v2"), ("ET", 502, "v2"), ("ET", 8899, "v1"), ("ET", 502, "v1"), ("DT", 8899, "v2"),
                               ("DT", 502, "v2"), ("ES", 8899, "v1"), ("ES", 8899, "v2")):
        for k in range(2 if tier == "quick" else 8):
            specs.append({"mode": "e2e", "seed": f"{seed}:C17:e2e:{fam}:{port}:{variant}:{k}", "family": fam, "port": port,
                          "variant": variant, "n": 40, "per_setting": per if k % 4 != 1 else max(3, per // 3), "slow": k % 4 == 1,
                          "tag": {"ET": ["ETU", "ETT", "EHU", "BTU"], "DT": ["DTU", "DSN", "MSU", "DTS"], "ES": ["ESU"] * 4}[fam][k % 4]})
    return specs


def run_shard(spec):
    part = Part()
    {"enc": encoder_part, "e2e": e2e_part, "dtpair": dt_pair_part, "overlap": overlapping_writes_part}[spec["mode"]](spec, part)
    return part


def replay(case):
    part = Part()
    if case.get("overlap"):
        overlapping_writes_part({"seed": case["seed"], "n": case["i"] + 1}, part)
    elif case.get("es_layout"):
        es_layout_part(part)
    elif case.get("dtpair"):
        dt_pair_part({"seed": case["seed"], "n": case["i"] + 1}, part)
    elif case.get("e2e"):
        e2e_part(case["spec"], part)
    else:
        encoder_part({"seed": "replay", "shards": 1, "shard": 0, "n": 300, "full": True}, part)
    return [{"key": v["key"], "msg": v["msg"]} for v in part.violations if case.get("setting") is None or case["setting"] in v["msg"]]
