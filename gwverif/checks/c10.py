"""C10  At most one transport is open per inverter and none is leaked (fault_enumeration)."""
from __future__ import annotations

import errno
import itertools
import random

from .. import engine
from .. import refcodec as rc
from ..runner import Part

PROPERTY = "C10"
LEVEL = "fault_enumeration"
RULE = ("histories of up to 3 (quick) / 4 (thorough) actions from {request with a per-transmission fault class, close(), "
        "event-loop change (asyncio.run boundary), idle connection drop by the peer} followed by a request against a healthy "
        "peer and a final close(); x {udp, tcp} x keep-alive; socket open/close events of the real asyncio transports are "
        "counted at every event and at quiescent points (after each call returns + 2 loop iterations); a concurrent part: a queued caller cancelled, close() at four phases of a slow request, overlapping requests, keep-alive switched off between requests, contention in two successive event loops, setting writes through the family API with one half refused, two objects for one endpoint; a history that cannot leave a stray answer behind needs exactly one transmission for the final healthy request; distinct = distinct "
        "(transport, keep-alive, action sequence, open/close trace) tuples")
ASSUMPTIONS = [
    "a socket counts as open from MonSocket creation until its close() syscall wrapper runs",
    "with keep-alive on, a transport that belonged to a closed event loop can only be finalised by the garbage collector "
    "(its loop can no longer run callbacks); CPython's reference counting does that at once: the resulting "
    "'unclosed transport' ResourceWarning is recorded but tolerated in exactly that situation",
    "external cancellation of a caller's task is outside the property's quantifier and is not driven",
]
MUST = ["keepalive_switched_off_mid_request", "request_after_damaged_answer_with_trailing_bytes", "nothing_open_at_the_moment_of_return", "answered_request_right_after_a_rejected_one", "reconnect_after_failure", "reconnect_after_close", "reconnect_after_peerdrop", "reconnect_after_loop_change",
        "keepalive_reuse", "no_keepalive_closed_after_request", "final_close_zero", "max_one_checked",
        "queued_caller_cancelled", "concurrent_close_and_requests", "setting_write_histories", "transparent_reconnect_checked", "two_objects_one_endpoint", "keepalive_option_rejected"]
EXHAUSTIVE = {"quick": True, "thorough": True}

REQ_CLASSES = {
    "ok": ["now"], "drop_ok": ["drop", "now"], "exh": ["drop", "drop", "drop"], "rej": [["exc", 2]],
    "garbage_ok": ["garbage", "now"], "closelate_ok": ["closelate", "now"], "close_ok": ["close", "now"],
    "late": ["late", "late", "late"], "frag1": ["frag1", "now"], "reset_ok": [["reset", 0.0], "now"],
    "senderr": ["now", "now"],
    "slow_ok": [["delay", 0.8]], "frag2_ok": [["frag2", 9, 0.3]],
    # answered at once; a few stray bytes follow 0.5 T later, while the (kept-alive) socket is idle (the caller pauses 0.7 T)
    "ok_latebad": [["nowjunk", 0.5]],
    # answered at once; 0.5 T later the peer RESETS the idle connection (RST: the transport dies with an error, no EOF first; UDP: a late
    # ICMP error); the caller pauses 0.7 T
    "ok_latereset": [["nowerr", errno.ECONNRESET, 0.5]],
    # answered at once; 0.4 T later a lone first fragment of that answer arrives again on the idle socket (whatever it arms or buffers must
    # not disturb the next request, which starts 0.3 T after it)
    "ok_latefrag": [["nowfrag", 0.4]],
}
# classes whose script legitimately makes the library retransmit / reconnect
RETRY_CLASSES = {"drop_ok", "exh", "garbage_ok", "closelate_ok", "close_ok", "late", "frag1", "reset_ok", "senderr"}
# a request the inverter rejects, followed IN THE SAME LOOP ITERATION by a request it answers (no pause in which a deferred clean-up could run)
# RAWCMD: a raw command through the public send_command() (answered at once): it travels over the object's one transport like any request
# BAD_THEN_SLOW: a request whose first answer is damaged and trails a few stray bytes 0.3 T later, then - without a pause - a request the inverter
# takes 0.6 T to answer: the stray bytes of the old transmission arrive while the new request waits, and must not become its answer
ACTIONS = list(REQ_CLASSES) + ["CLOSE", "NEWLOOP", "PEERDROP", "REJ_THEN_OK", "RAWCMD", "BAD_THEN_SLOW"]


def scenario(transport, ka, T, R, actions):
    framing = "rtu" if transport == "udp" else "tcp"
    by_reg, segments, cur = {}, [], []
    reg_class = {}
    reg = 700
    for a in actions:
        if a == "CLOSE":
            cur.append(["close"])
        elif a == "PEERDROP":
            cur.append(["peerdrop"])
        elif a == "NEWLOOP":
            segments.append(cur)
            cur = []
        elif a == "RAWCMD":
            reg += 1
            by_reg[reg] = ["now"]
            reg_class[reg] = "ok"
            cmd_ = {"kind": "read", "comm": 0xF7, "reg": reg, "count": 2}
            pdu_ = rc.tcp_request_pdu(cmd_)
            cur.append(["rawcmd", (rc.rtu_request(cmd_) if framing == "rtu" else b"\x00\x01\x00\x00" + len(pdu_).to_bytes(2, "big") + pdu_).hex()])
        elif a == "BAD_THEN_SLOW":
            reg += 2
            by_reg[reg - 1], by_reg[reg] = [["badstray", 0.3 * T], "now"], [["delay", 0.6 * T]]
            reg_class[reg - 1], reg_class[reg] = "garbage_ok", "slow_after_bad"
            if transport == "udp":
                # (datagrams have no connection that could be dropped with the old transmission: a stray datagram during the next request IS a
                #  damaged answer to it and legitimately costs a retransmission - only the damaged answer is kept for UDP)
                by_reg[reg - 1], by_reg[reg] = ["garbage", "now"], ["now"]
                reg_class[reg] = "ok"
            cur.append(["read", reg - 1, 2])
            cur.append(["read", reg, 2])
        elif a == "REJ_THEN_OK":
            reg += 2
            by_reg[reg - 1], by_reg[reg] = [["exc", 2]], ["now"]
            reg_class[reg - 1], reg_class[reg] = "rej", "ok"
            cur.append(["b2b", ["read", reg - 1, 2], ["read", reg, 2]])
        else:
            reg += 1
            by_reg[reg] = [([x[0], x[1] * T] if (isinstance(x, list) and x[0] in ("delay", "nowjunk", "nowfrag")) else
                           ([x[0], x[1], x[2] * T] if (isinstance(x, list) and x[0] == "nowerr") else
                            ([x[0], x[1], x[2] * T] if (isinstance(x, list) and x[0] == "frag2") else x))) for x in REQ_CLASSES[a]]
            reg_class[reg] = a
            if a == "senderr":
                cur.append(["arm_send_fault", errno.EHOSTUNREACH])
            cur.append(["read", reg, 2])
            if a in ("ok_latebad", "ok_latereset", "ok_latefrag"):
                cur.append(["sleep", 0.7 * T])
    reg += 1
    by_reg[reg] = ["now"]
    cur.append(["read", reg, 2])          # healthy request: must succeed
    cur.append(["close"])
    segments.append(cur)
    return {"transport": transport, "framing": framing, "keep_alive": ka, "T": T, "R": R, "by_reg": by_reg,
            "after": "now", "actions": list(actions), "healthy_reg": reg, "gc": True,
            # (with a loop change the transport of the closed loop can only go away by garbage collection - CPython does that at once by
            #  reference counting, the harness' own references delay it: collect at the quiescent points so that only a transport the
            #  LIBRARY still holds on to counts as open)
            "gc_quiesce": "NEWLOOP" in actions, "reg_class": {str(k): v for k, v in reg_class.items()},
            "segments": [[{"start": 0.0, "steps": seg}] for seg in segments]}


def check_run(sc, run, part: Part):
    tr, ka = sc["transport"], sc["keep_alive"]
    out = []
    if run.stop:
        return [(f"C10/{tr}/hang", run.stop)]
    ctx = f"actions {sc['actions']} keep_alive={ka}"
    # (1) never more than one open socket
    live, mx, seg = {}, 0, 0
    for e in run.events:
        if e[1] == "segment":
            seg = e[2]
        elif e[1] == "open":
            live[e[2]] = seg
            if len(live) > 1:
                stale = all(sg < seg for sid, sg in live.items() if sid != e[2])
                key = f"C10/{tr}/two-open-sockets" + ("/stale-transport-of-closed-loop" if (stale and ka) else "")
                out.append((key, f"{ctx}: sockets {sorted(live)} open at t={e[0]}"
                            + (" (the older one belongs to the previous, closed event loop)" if stale else "")))
        elif e[1] == "close":
            live.pop(e[2], None)
        mx = max(mx, len(live))
    part.count("max_one_checked")
    # (2) quiescent points
    calls = {c["id"]: c for c in run.calls}
    prev_ok_read = None
    # which sockets are open once a call has ended (and the loop has settled), and in which event loop of the run they were opened
    opened_in, seg_ = {}, 0
    for e in run.events:
        if e[1] == "segment":
            seg_ = e[2]
        elif e[1] == "open":
            opened_in[e[2]] = seg_
    for q in run.quiesce:
        c = calls[q["id"]]
        op = c["step"][0]
        sids = q.get("live_sids") or []
        stale_only = ka and bool(sids) and all(opened_in.get(sid, c["seg"]) < c["seg"] for sid in sids)
        if op == "read" and not ka and c.get("open_at_return") and not q["live"]:
            # closed a moment later - but when the call returned, its transport had not even been told to close: the caller (and whatever it does
            # next in the same loop iteration) still saw an open connection
            out.append((f"C10/{tr}/open-after-request/at-return",
                        f"{ctx}: when request #{c['idx']} returned ({c['outcome']}, keep-alive off) {c['open_at_return']} transport(s) were open and not closing"))
        elif op == "read" and not ka and not q["live"]:
            part.count("nothing_open_at_the_moment_of_return")
        if op == "read" and not ka:
            if q["live"] != 0:
                out.append((f"C10/{tr}/open-after-request",
                            f"{ctx}: {q['live']} socket(s) still open after request #{c['idx']} ended {c['outcome']} (keep-alive off)"))
            else:
                part.count("no_keepalive_closed_after_request")
        if op == "close":
            if q["live"] != 0:
                earlier = [x for x in run.calls if x["seg"] < c["seg"] and x["step"][0] == "read"]
                # (a rejected request leaves its exception - and through the traceback the transport's frames - referenced by the
                #  protocol's finished future: that stale transport survives garbage collection until the next request replaces the future)
                held = stale_only and bool(earlier) and earlier[-1]["outcome"] == "RequestRejectedException"
                out.append((f"C10/{tr}/open-after-close" + ("/stale-transport-of-closed-loop" if stale_only else "") + ("/held-by-rejected-request" if held else ""),
                            f"{ctx}: {q['live']} socket(s) open after close()" +
                            (" (opened in the previous, closed event loop)" if stale_only else "")))
        if q["live"] > 1 and not any(k.startswith(f"C10/{tr}/two-open-sockets") for k, _ in out):
            out.append((f"C10/{tr}/two-open-sockets", f"{ctx}: {q['live']} sockets open at a quiescent point"))
    # (3) keep-alive: consecutive successful requests reuse the transport
    if ka:
        seq = [c for c in run.calls if c["step"][0] not in ("arm_send_fault", "sleep")]
        for a, b in zip(seq, seq[1:]):
            if a["step"][0] == "read" and b["step"][0] == "read" and a["outcome"] == "ok" and b["outcome"] == "ok" \
                    and a["seg"] == b["seg"]:
                between = [e for e in run.events if e[1] == "open" and a["t1"] <= e[0] <= b["t1"] and
                           _idx(run, e) > _ret_idx(run, a["id"]) and _idx(run, e) < _ret_idx(run, b["id"])]
                closed_in_a = any(e[1] in ("eof", "rxerr", "pclose") for e in engine.events_of_call(run, a["id"])) or \
                    any(e[1] in ("eof", "rxerr", "pclose", "peerdrop") for e in _between(run, a["id"], b["id"])) or \
                    any(e[1] in ("eof", "rxerr", "txerr", "pclose") for e in engine.events_of_call(run, b["id"]))
                retried_b = len([e for e in engine.events_of_call(run, b["id"]) if e[1] == "tx"]) > 1
                cls_b = sc.get("reg_class", {}).get(str(b["step"][1]), "ok")
                if retried_b and cls_b not in RETRY_CLASSES and not closed_in_a:
                    # an answer that arrived in time on a healthy kept-alive connection, yet the request was re-sent / reconnected
                    out.append((f"C10/{tr}/keepalive-not-reused",
                                f"{ctx}: request #{b['idx']} ({cls_b}: answered in time) was retransmitted on a kept-alive connection"))
                if between and not closed_in_a and not (retried_b and cls_b in RETRY_CLASSES):
                    out.append((f"C10/{tr}/keepalive-not-reused",
                                f"{ctx}: transport was re-opened between two consecutive successful requests "
                                f"#{a['idx']} and #{b['idx']}: {[(e[0], e[1]) for e in between]}"))
                elif not between:
                    part.count("keepalive_reuse")
    # (3b) a rejected request followed at once by an answered one: the second works, with one transmission of its own
    for c in run.calls:
        if c["step"][0] == "b2b":
            ntx_ = len([e for e in engine.events_of_call(run, c["id"]) if e[1] == "tx"])
            part.count("answered_request_right_after_a_rejected_one")
            if c["outcome"] != "ok":
                out.append((f"C10/{tr}/next-request-fails", f"{ctx}: the request issued right after a rejected one (same loop iteration) ended {c['outcome']}"))
            elif ntx_ != 2 and not any(x in RETRY_CLASSES or x in ("ok_latebad", "ok_latereset", "ok_latefrag") for x in sc["actions"]):
                out.append((f"C10/{tr}/reconnect-not-transparent",
                            f"{ctx}: a rejected request and, right after it, an answered one took {ntx_} transmissions instead of 2"))
    # (3c) the request that follows a damaged answer works, whatever else of that old transmission is still on its way
    for c in run.calls:
        if c["step"][0] == "read" and sc.get("reg_class", {}).get(str(c["step"][1])) == "slow_after_bad":
            part.count("request_after_damaged_answer_with_trailing_bytes")
            if c["outcome"] != "ok":
                out.append((f"C10/{tr}/next-request-fails", f"{ctx}: the request issued right after one whose first answer was damaged (a few more stray bytes of that answer "
                                                            f"arrive 0.3 T later) ended {c['outcome']}"))
    # (4) the request against the healthy peer succeeds
    healthy = [c for c in run.calls if c["step"][0] == "read" and c["step"][1] == sc["healthy_reg"]]
    if not healthy or healthy[0]["outcome"] != "ok":
        out.append((f"C10/{tr}/next-request-fails",
                    f"{ctx}: request against a healthy peer ended {healthy[0]['outcome'] if healthy else 'never ran'}"))
    else:
        acts = sc["actions"]
        # ... and transparently: when nothing in the history can leave a stray answer behind (only answered requests, close(), loop changes
        # and - TCP - idle connection drops), the healthy request needs exactly one transmission
        clean = {"ok", "slow_ok", "frag2_ok", "rej", "CLOSE", "NEWLOOP", "ok_latebad", "ok_latereset", "ok_latefrag", "REJ_THEN_OK", "RAWCMD"} | ({"PEERDROP"} if tr == "tcp" else set())
        ntx = len([e for e in engine.events_of_call(run, healthy[0]["id"]) if e[1] == "tx"])
        if all(a in clean for a in acts):
            part.count("transparent_reconnect_checked")
            if ntx != 1:
                out.append((f"C10/{tr}/reconnect-not-transparent",
                            f"{ctx}: the request against the healthy peer needed {ntx} transmissions (ended at +{round(healthy[0]['t1'] - healthy[0]['t0'], 6)})"))
            elif healthy[0]["t1"] - healthy[0]["t0"] >= sc["T"] - 1e-9:
                # (a request written into a transport that is already dead never shows up as a transmission: it shows as a timeout spent
                #  before the one transmission that is answered at once)
                out.append((f"C10/{tr}/reconnect-not-transparent",
                            f"{ctx}: the request against the healthy peer (answers at once) ended only at +{round(healthy[0]['t1'] - healthy[0]['t0'], 6)}: "
                            f"a whole timeout went by before the transmission that was answered"))
        if acts:
            last = acts[-1]
            part.count({"CLOSE": "reconnect_after_close", "PEERDROP": "reconnect_after_peerdrop",
                        "NEWLOOP": "reconnect_after_loop_change"}.get(last, "reconnect_after_failure" if last != "ok" else "after_ok"))
    # (5) nothing left at the end
    if run.end_live:
        out.append((f"C10/{tr}/leak-at-end", f"{ctx}: sockets {sorted(run.end_live)} still open after the final close()"))
    else:
        part.count("final_close_zero")
    # (6) ResourceWarnings
    for w in run.warnings:
        if w.startswith("ResourceWarning"):
            if ka and "NEWLOOP" in sc["actions"] and "unclosed transport" in w:
                part.count("tolerated_unclosed_transport_of_closed_loop")
                continue
            out.append((f"C10/{tr}/resource-warning", f"{ctx}: {w[:160]}"))
    return out


def _idx(run, ev):
    return run.events.index(ev)


def _ret_idx(run, cid):
    for i, e in enumerate(run.events):
        if e[1] == "ret" and e[2] == cid:
            return i
    return len(run.events)


def _between(run, a, b):
    i, j = _ret_idx(run, a), None
    for k, e in enumerate(run.events):
        if e[1] == "call" and e[2] == b:
            j = k
    return run.events[i:j] if j else []


def run_case(sc, part):
    run = engine.run_scenario(sc)
    part.evaluations += 1
    vs = check_run(sc, run, part)
    part.see(repr((sc["transport"], sc["keep_alive"], tuple(sc["actions"]),
                   tuple(e[1] for e in run.events if e[1] in ("open", "close")))))
    for key, msg in vs:
        part.violate(key, msg, {"scenario": sc, "calls": run.calls, "quiesce": run.quiesce,
                                "events": engine.jsonable_events(run.events, 150)})
    if part.evaluations % 331 == 3:
        part.sample({"transport": sc["transport"], "keep_alive": sc["keep_alive"], "actions": sc["actions"],
                     "socket_events": [[e[0], e[1], e[2]] for e in run.events if e[1] in ("open", "close")],
                     "quiescent_live": [q["live"] for q in run.quiesce],
                     "outcomes": [c["outcome"] for c in run.calls if c["step"][0] == "read"]})
    return vs


def cancel_scenario(transport, ka, R, a_class, cancel_at, b_start):
    framing = "rtu" if transport == "udp" else "tcp"
    by_reg = {801: a_class, 802: ["now"], 803: ["now"]}
    tasks = [{"start": 0.0, "steps": [["read", 801, 2]]},
             {"start": b_start, "cancel_at": cancel_at, "steps": [["read", 802, 2]]},
             {"start": 6.0, "steps": [["read", 803, 2], ["close"]]}]
    return {"transport": transport, "framing": framing, "keep_alive": ka, "T": 1, "R": R, "by_reg": by_reg,
            "after": "now", "actions": ["queued-caller-cancelled", a_class, cancel_at, b_start], "healthy_reg": 803,
            "gc": True, "tasks": tasks}


def run_cancel_case(sc, part):
    run = engine.run_scenario(sc, quiesce=False)
    part.evaluations += 1
    tr, ka = sc["transport"], sc["keep_alive"]
    ctx = f"{sc['actions']} keep_alive={ka} R={sc['R']}"
    vs = []
    if run.stop:
        vs.append((f"C10/{tr}/hang", f"{ctx}: {run.stop}"))
    live = set()
    for e in run.events:
        if e[1] == "open":
            live.add(e[2])
            if len(live) > 1:
                vs.append((f"C10/{tr}/two-open-sockets", f"{ctx}: sockets {sorted(live)} open at t={e[0]}"))
        elif e[1] == "close":
            live.discard(e[2])
    healthy = [c for c in run.calls if c["step"][0] == "read" and c["step"][1] == 803]
    if not run.stop and (not healthy or healthy[0]["outcome"] != "ok"):
        vs.append((f"C10/{tr}/next-request-fails", f"{ctx}: healthy request ended {healthy[0]['outcome'] if healthy else 'never ran'}"))
    if not run.stop and run.end_live:
        vs.append((f"C10/{tr}/leak-at-end", f"{ctx}: sockets {sorted(run.end_live)} still open after the final close()"))
    for w in run.warnings:
        if w.startswith("ResourceWarning"):
            vs.append((f"C10/{tr}/resource-warning", f"{ctx}: {w[:160]}"))
    if any(e[1] == "cancel" for e in run.events) and any(c["step"][0] == "read" and c["step"][1] == 802 and c["outcome"] != "ok" for c in run.calls):
        part.count("queued_caller_cancelled")
    part.see(repr((tr, ka, sc["R"], str(sc["actions"]), tuple(e[1] for e in run.events if e[1] in ("open", "close", "cancel")))))
    for key, msg in vs:
        part.violate(key, msg, {"cancel": True, "scenario": sc, "calls": run.calls,
                                "events": engine.jsonable_events(run.events, 150)})
    return vs


def concurrent_scenarios():
    """(a) close() is called while a slow request is in flight; (b) two requests overlap; (c) keep-alive is switched off between
    two requests.  Whatever the order: never two sockets, nothing open after the final close()."""
    out = []
    for transport in ("udp", "tcp"):
        framing = "rtu" if transport == "udp" else "tcp"
        for ka in (False, True):
            for d in (0.3, 0.6):
                for close_at in (0.0, 0.1, d, d + 0.1):
                    out.append({"transport": transport, "framing": framing, "keep_alive": ka, "T": 1, "R": 1,
                                "by_reg": {811: [["delay", d]], 812: [["delay", 0.2]], 813: ["now"]}, "after": "now", "gc": True,
                                "actions": ["close-during-request", d, close_at], "healthy_reg": 813,
                                # TCP close() queues behind the request in flight, so once both have ended (long before t=2) nothing
                                # may be open; UDP close() is immediate and the request it interrupted may legitimately re-open
                                "expect_zero_at": 2.0 if transport == "tcp" else 4.0,
                                "tasks": [{"start": 0.0, "steps": [["read", 811, 2]]},
                                          {"start": close_at, "steps": [["close"]] if close_at != d else [["read", 812, 2], ["close"]]},
                                          {"start": 3.0, "steps": [["close"], ["sleep", 1.5], ["read", 813, 2], ["close"]]}]})
            out.append({"transport": transport, "framing": framing, "keep_alive": True, "T": 1, "R": 1,
                        "by_reg": {811: ["now"], 812: ["now"], 813: ["now"]}, "after": "now", "gc": True,
                        "actions": ["keep-alive-switched-off", ka], "healthy_reg": 813, "expect_zero_at": 4.0,
                        "tasks": [{"start": 0.0, "steps": [["read", 811, 2], ["api", "set_keep_alive", False], ["read", 812, 2]]},
                                  {"start": 3.0, "steps": [["close"], ["sleep", 1.5], ["read", 813, 2], ["close"]]}]})
            # overlapping requests (and a close() behind a request) in one event loop, then the same again from a NEW event loop
            seg = [{"start": 0.0, "steps": [["read", 811, 2]]}, {"start": 0.1, "steps": [["read", 812, 2]]},
                   {"start": 0.15, "steps": [["close"]] if transport == "tcp" else [["read", 813, 2]]}]
            out.append({"transport": transport, "framing": framing, "keep_alive": ka, "T": 1, "R": 1,
                        "by_reg": {811: [["delay", 0.3], ["delay", 0.3]], 812: ["now"], 813: ["now"]}, "after": "now", "gc": True,
                        "actions": ["contention-in-two-event-loops"], "healthy_reg": 813, "expect_zero_at": 1e9, "all_reads_ok": True,
                        "segments": [seg, seg, [{"start": 0.0, "steps": [["close"], ["read", 813, 2], ["close"]]}]]})
    return out


def run_concurrent_case(sc, part):
    run = engine.run_scenario(sc, quiesce=False)
    part.evaluations += 1
    tr, ka = sc["transport"], sc["keep_alive"]
    ctx = f"{sc['actions']} keep_alive={ka}"
    vs = []
    if run.stop:
        vs.append((f"C10/{tr}/hang", f"{ctx}: {run.stop}"))
    live = {}
    zero_checked = False
    for e in run.events:
        if e[0] >= sc["expect_zero_at"] and not zero_checked:
            zero_checked = True
            if live:
                vs.append((f"C10/{tr}/open-after-close", f"{ctx}: sockets {sorted(live)} still open one second after close() and all requests ended"))
        if e[1] == "open":
            live[e[2]] = e[0]
            if len(live) > 1:
                vs.append((f"C10/{tr}/two-open-sockets", f"{ctx}: sockets {sorted(live)} open at t={e[0]}"))
        elif e[1] == "close":
            live.pop(e[2], None)
    if not run.stop and run.end_live:
        vs.append((f"C10/{tr}/leak-at-end", f"{ctx}: sockets {sorted(run.end_live)} still open after the final close()"))
    if sc.get("all_reads_ok"):
        for c in run.calls:
            if c["outcome"] != "ok" and not run.stop:
                vs.append((f"C10/{tr}/next-request-fails", f"{ctx}: no fault was injected, yet {c['step']} ended {c['outcome']} ({c.get('msg', '')[:80]})"))
                break
    healthy = [c for c in run.calls if c["step"][0] == "read" and c["step"][1] == 813]
    if not run.stop and (not healthy or healthy[0]["outcome"] != "ok"):
        vs.append((f"C10/{tr}/next-request-fails", f"{ctx}: healthy request ended {healthy[0]['outcome'] if healthy else 'never ran'}"))
    for w in run.warnings:
        if w.startswith("ResourceWarning"):
            if ka and sc.get("segments") and "unclosed transport" in w:     # (same tolerance as in the sequential histories: see ASSUMPTIONS)
                part.count("tolerated_unclosed_transport_of_closed_loop")
                continue
            vs.append((f"C10/{tr}/resource-warning", f"{ctx}: {w[:160]}"))
    part.count("concurrent_close_and_requests")
    part.see(repr((tr, ka, str(sc["actions"]))))
    for key, msg in vs:
        part.violate(key, msg, {"concurrent": True, "scenario": sc, "events": engine.jsonable_events(run.events, 120)})
    return vs


def setting_write_cases(part):
    """keep-alive off (and on), through the family API: a one-byte setting is written (read-modify-write = two requests) while the
    inverter refuses / ignores one of the two halves; afterwards ordinary requests: with keep-alive off no socket may stay open once a
    request has ended, and never more than one at a time"""
    import asyncio
    from .. import env, models
    g = env.goodwe()
    for fam, port in (("ET", 8899), ("ET", 502), ("DT", 8899)):
        for ka in (False, True):
            for fault in ("read-refused", "write-refused", "read-silent", "none"):
                sim = models.family_sim(fam)
                seen = []

                async def flow(loop):
                    inv = models.family_cls(g, fam)("inv0", port, 0, 1, 1)
                    inv.set_keep_alive(ka)
                    await inv.read_device_info()

                    async def settle(label):
                        await asyncio.sleep(0)
                        await asyncio.sleep(0)
                        seen.append((label, len(loop.live)))
                    await settle("read_device_info")
                    sid, reg = ("eco_mode_1_switch", 47549) if fam == "ET" else ("grid_export_limit", 40328)
                    if fault == "read-refused":
                        sim.exc_map[(3, reg, 1)] = 6
                    elif fault == "write-refused":
                        sim.exc_map[(6, reg)] = 4
                    elif fault == "read-silent":
                        sim.silent = True
                    try:
                        await inv.write_setting(sid, 1)
                    except (g.InverterError, ValueError):
                        pass
                    sim.exc_map.clear()
                    sim.silent = False
                    await settle(f"write_setting({sid}) with {fault}")
                    for call in ("read_runtime_data", "get_grid_export_limit", "read_runtime_data"):
                        try:
                            await getattr(inv, call)()
                        except g.InverterError:
                            pass
                        await settle(call)
                    await inv._protocol.close()
                    await settle("close")

                run = engine.run_custom({("inv0", port): sim}, flow, vtime_cap=600, tx_cap=600)
                part.evaluations += 1
                part.count("setting_write_histories")
                tr = "udp" if port == 8899 else "tcp"
                ctx = f"{fam} port {port} keep_alive={ka}, one-byte/setting write with {fault}"
                case = {"setting_write": True}
                if run.stop or run.error is not None:
                    part.violate(f"C10/{tr}/hang" if run.stop else f"C10/{tr}/setup", f"{ctx}: {run.stop or repr(run.error)}", case)
                    continue
                live, worst = set(), 0
                for e in run.events:
                    if e[1] == "open":
                        live.add(e[2])
                        worst = max(worst, len(live))
                    elif e[1] == "close":
                        live.discard(e[2])
                if worst > 1:
                    part.violate(f"C10/{tr}/two-open-sockets", f"{ctx}: {worst} sockets open at the same time", case)
                for label, n in seen:
                    if (not ka or label == "close") and n:
                        part.violate(f"C10/{tr}/open-after-request" if label != "close" else f"C10/{tr}/open-after-close",
                                     f"{ctx}: {n} socket(s) still open after {label} returned", case)
                        break
                part.see(f"setting-write|{fam}|{port}|{ka}|{fault}")


def same_endpoint_cases(part):
    """two inverter OBJECTS configured for the same endpoint with identical parameters, A with keep-alive, B without: each object owns
    its transport - A's consecutive requests reuse one socket, B leaves none open, B.close() does not close A's"""
    import asyncio
    from .. import env, models
    g = env.goodwe()
    for fam, port in (("ET", 8899), ("ET", 502), ("DT", 8899), ("ES", 8899)):
        sim = models.family_sim(fam)
        obs = {}

        async def flow(loop):
            A = models.family_cls(g, fam)("inv0", port, 0, 1, 1)
            B = models.family_cls(g, fam)("inv0", port, 0, 1, 1)
            A.set_keep_alive(True)
            B.set_keep_alive(False)
            await A.read_device_info()
            await A.read_runtime_data()
            n_open0 = len([e for e in loop.events if e[1] == "open"])
            await asyncio.sleep(0)
            obs["live_after_A"] = len(loop.live)
            await B.read_device_info()
            await asyncio.sleep(0)
            await asyncio.sleep(0)
            obs["live_after_B"] = len(loop.live)
            await A.read_runtime_data()
            await A.read_runtime_data()
            obs["opens_by_A_later"] = len([e for e in loop.events if e[1] == "open"]) - n_open0 - obs.get("opens_B", 0)
            obs["opens_total"] = len([e for e in loop.events if e[1] == "open"])
            await B._protocol.close()
            await asyncio.sleep(0)
            obs["live_after_B_close"] = len(loop.live)
            await A._protocol.close()
            await asyncio.sleep(0)
            obs["live_end"] = len(loop.live)

        run = engine.run_custom({("inv0", port): sim}, flow, vtime_cap=600, tx_cap=600)
        part.evaluations += 1
        part.count("two_objects_one_endpoint")
        tr = "udp" if port == 8899 else "tcp"
        ctx = f"two {fam} objects for the same endpoint (port {port}), A keep-alive on, B off"
        case = {"same_endpoint": True}
        if run.stop or run.error is not None:
            part.violate(f"C10/{tr}/hang" if run.stop else f"C10/{tr}/setup", f"{ctx}: {run.stop or repr(run.error)}", case)
            continue
        # A: one socket, kept; B: opened its own for each request and left none; afterwards A still has its one
        if obs["live_after_A"] != 1 or obs["live_after_B"] != 1 or obs["live_after_B_close"] != 1 or obs["live_end"] != 0:
            part.violate(f"C10/{tr}/transport-shared-between-objects",
                         f"{ctx}: open sockets after A's requests {obs['live_after_A']} (1), after B's request {obs['live_after_B']} (1: A's), after "
                         f"B.close() {obs['live_after_B_close']} (1: A's), after A.close() {obs['live_end']} (0)", case)
        opensA = [e for e in run.events if e[1] == "open"]
        # A's later requests must not have opened anything: every 'open' after A's first one belongs to B (one per request of B)
        part.see(f"same-endpoint|{fam}|{port}")


def keepalive_toggle_cases(part):
    """keep-alive is switched OFF while a request is in flight on the kept-alive connection (an application changing its mind, a config reload):
    once that request has completed, keep-alive is off and nothing may remain open; switched ON mid-request, the connection stays for the next one"""
    import asyncio
    from .. import env, models
    g = env.goodwe()
    for fam, port in (("ET", 502), ("ET", 8899), ("DT", 502), ("ES", 8899)):
        for at in (0.1, 0.4):
            for how, single in (("answered", True), ("lost_then_answered", True), ("answered", False), ("lost_then_answered", False)):
                sim = models.family_sim(fam)
                obs = {}

                async def flow(loop):
                    inv = models.family_cls(g, fam)("inv0", port, 0, 1, 2)
                    inv.set_keep_alive(True)
                    await inv.read_device_info()
                    obs["open_before"] = len(loop.open_transports())
                    sim.delay = 0.6
                    if how == "lost_then_answered":
                        orig, seen = sim.handle, {"n": 0}

                        def handle(req, kind):
                            seen["n"] += 1
                            return None if seen["n"] == 1 else orig(req, kind)
                        sim.handle = handle
                    loop.call_later(at, inv.set_keep_alive, False)
                    try:
                        await (inv.read_setting("modbus-47000") if single else inv.read_runtime_data())
                        obs["out"] = "ok"
                    except Exception as e:      # noqa
                        obs["out"] = type(e).__name__
                    obs["at_return"] = len(loop.open_transports())
                    await asyncio.sleep(0)
                    await asyncio.sleep(0)
                    obs["settled"] = len(loop.live)
                    sim.delay = 0.0
                    await (inv.read_setting("modbus-47001") if single else inv.read_runtime_data())
                    await asyncio.sleep(0)
                    await asyncio.sleep(0)
                    obs["after_next"] = len(loop.live)
                run = engine.run_custom({("inv0", port): sim}, flow, vtime_cap=600, tx_cap=600)
                part.evaluations += 1
                tr = "udp" if port == 8899 else "tcp"
                ctx = f"{fam} port {port}: keep-alive switched off {at} s into a {'single read' if single else 'poll'} on the kept-alive connection ({how})"
                case = {"ka_toggle": True}
                if run.stop or run.error is not None:
                    part.violate(f"C10/{tr}/hang" if run.stop else f"C10/{tr}/next-request-fails", f"{ctx}: {run.stop or repr(run.error)}", case)
                elif obs.get("out") != "ok":
                    part.violate(f"C10/{tr}/next-request-fails", f"{ctx}: the poll ended {obs.get('out')}", case)
                elif obs["at_return"] or obs["settled"] or obs["after_next"]:
                    part.violate(f"C10/{tr}/open-after-request", f"{ctx}: open when the poll returned: {obs['at_return']}, after the loop settled: {obs['settled']}, "
                                                                 f"after the next poll (keep-alive off): {obs['after_next']}", case)
                else:
                    part.count("keepalive_switched_off_mid_request")


def sockopt_cases(part):
    """Modbus/TCP with keep-alive on a network stack that rejects a TCP keep-alive option (ENOPROTOOPT) on the first / on every
    connection: whatever the request's outcome, at most one socket is open at a time and none after close()"""
    import asyncio
    import errno as errno_
    from .. import env, models
    g = env.goodwe()
    for pattern in ([errno_.ENOPROTOOPT], [errno_.ENOPROTOOPT] * 40, [0, 0, errno_.ENOPROTOOPT], [errno_.EINVAL, 0, 0, errno_.ENOPROTOOPT]):
        for R in (0, 2):
            sim = models.family_sim("ET")
            obs = {"max": 0}

            async def flow(loop):
                loop.sockopt_faults = list(pattern)
                inv = g.ET("inv0", 502, 0, 1, R)
                inv.set_keep_alive(True)
                for _ in range(3):
                    try:
                        await inv.read_device_info()
                    except g.InverterError:
                        pass
                    await asyncio.sleep(0)
                    obs["max"] = max(obs["max"], len(loop.live))
                await inv._protocol.close()
                await asyncio.sleep(0)
                await asyncio.sleep(0)
                obs["end"] = len(loop.live)

            run = engine.run_custom({("inv0", 502): sim}, flow, vtime_cap=600, tx_cap=600)
            part.evaluations += 1
            part.count("keepalive_option_rejected")
            ctx = f"TCP keep-alive, setsockopt pattern {pattern[:4]}{'...' if len(pattern) > 4 else ''}, retries {R}"
            case = {"sockopt": True}
            if run.stop or run.error is not None:
                part.violate("C10/tcp/hang" if run.stop else f"C10/tcp/setup", f"{ctx}: {run.stop or repr(run.error)}", case)
                continue
            live, worst = set(), 0
            for e in run.events:
                if e[1] == "open":
                    live.add(e[2])
                    worst = max(worst, len(live))
                elif e[1] == "close":
                    live.discard(e[2])
            if worst > 1:
                part.violate("C10/tcp/two-open-sockets", f"{ctx}: {worst} sockets open at the same time", case)
            if obs.get("end"):
                part.violate("C10/tcp/open-after-close", f"{ctx}: {obs['end']} socket(s) still open after close()", case)
            opens = len([e for e in run.events if e[1] == "open"])
            if len(pattern) < 10 and R and opens != 1:
                part.violate("C10/tcp/keepalive-not-reused", f"{ctx}: three successful requests with keep-alive on used {opens} connections", case)
            part.see(f"sockopt|{len(pattern)}|{R}")


def plan(tier, seed):
    specs = [{"cancel": True}]
    depth = 3 if tier == "quick" else 4
    for transport in ("udp", "tcp"):
        for ka in (False, True):
            for first in ACTIONS:
                specs.append({"transport": transport, "ka": ka, "depth": depth, "first": first,
                              "R": 1, "T": 1})
    return specs


def run_shard(spec):
    part = Part()
    if spec.get("cancel"):
        # not in the property's quantifier, but realistic (asyncio.wait_for around a call): a caller that is still
        # QUEUED behind another caller's request is cancelled from outside
        for transport in ("udp", "tcp"):
            for ka in (False, True):
                for R in (0, 1, 2):
                    for a_class in ([["delay", 0.3]], ["drop", "now"], [["frag2", 9, 0.3]], [["delay", 0.9]]):
                        for b_start in (0.0, 0.05):
                            for cancel_at in (0.06, 0.1, 0.29, 0.31, 0.95, 1.05):
                                run_cancel_case(cancel_scenario(transport, ka, R, a_class, cancel_at, b_start), part)
        for sc in concurrent_scenarios():
            run_concurrent_case(sc, part)
        setting_write_cases(part)
        same_endpoint_cases(part)
        sockopt_cases(part)
        keepalive_toggle_cases(part)
        return part
    for d in range(0, spec["depth"]):
        for rest in itertools.product(ACTIONS, repeat=d):
            actions = [spec["first"]] + list(rest)
            if spec["depth"] >= 4 and d == 3 and (hash(tuple(actions)) % 4):
                part.exhaustive = False
                continue
            run_case(scenario(spec["transport"], spec["ka"], spec["T"], spec["R"], actions), part)
    if spec["first"] == "ok":
        run_case(scenario(spec["transport"], spec["ka"], spec["T"], spec["R"], []), part)
    return part


def replay(case):
    part = Part()
    if case.get("sockopt"):
        sockopt_cases(part)
        return [{"key": v["key"], "msg": v["msg"]} for v in part.violations]
    if case.get("same_endpoint"):
        same_endpoint_cases(part)
        return [{"key": v["key"], "msg": v["msg"]} for v in part.violations]
    if case.get("setting_write"):
        setting_write_cases(part)
        return [{"key": v["key"], "msg": v["msg"]} for v in part.violations]
    vs = (run_concurrent_case if case.get("concurrent") else run_cancel_case if case.get("cancel") else run_case)(case["scenario"], part)
    return [{"key": k, "msg": m} for k, m in vs]
