"""C08  Modbus exception answers surface at once as RequestRejectedException(reason) (fault_enumeration)."""
from __future__ import annotations

from .. import engine
from .. import refcodec as rc
from ..runner import Part

PROPERTY = "C08"
LEVEL = "fault_enumeration"
RULE = ("exception codes 0..255 x {read, write, write-multi} x {udp-rtu, tcp} x keep-alive x preceded by j in 0..R "
        "dropped transmissions x exception delivered promptly or half a timeout late x entry through the protocol-level "
        "request, through read_sensor/write_setting('modbus-N') of the ET and DT classes, writes of a named setting, and command objects built for another unit address; two Modbus/TCP objects with overlapping requests; as the second request on a kept-alive object (with and without "
        "yielding in between); after lone fragments of every length; Modbus/TCP exception frames with a wrong MBAP length field; complete enumeration of the codes; distinct = distinct "
        "(transport, keep-alive, command kind, code, j, delay, entry) tuples")
ASSUMPTIONS = ["reason texts are the standard Modbus exception names (table copied from the specification into refcodec)",
               "virtual clock: 'at once' means zero virtual time between delivery of the exception frame and the return"]
MUST = ["rejected_through_connect", "exception_after_begun_answer", "capability_probe_other_reasons", "rejected_after_a_failed_request_on_the_same_object", "same_request_rejected_twice_in_a_row", "compound_call_write_rejected", "public_entry_es", "poll_blocks_rejected_in_turn", "family_level_rejection", "rejected_after_a_request_served_on_retransmission", "public_entry_dt", "named_setting_write", "two_tcp_objects_overlapping", "command_for_another_unit", "tcp_exception_with_wrong_mbap_length", "second_request_rejected", "rejected_after_lone_fragment", "rejected_udp", "rejected_tcp", "after_drops", "delayed_exception", "unknown_code", "public_entry"]
EXHAUSTIVE = {"quick": True, "thorough": True}
EPS = 1e-6


def scenario(transport, ka, T, R, kind, code, j, delay, entry):
    framing = "rtu" if transport == "udp" else "tcp"
    if entry == "public":
        step = ["rsensor", 400] if kind == "read" else ["wsetting", 400, -2]
    elif entry == "public-dt":          # the DT family class has its own copies of read_sensor / read_setting / write_setting
        step = ["rsensor", 400] if kind == "read" else ["wsetting", 400, -2]
    elif entry == "public-es":          # ... and so has the ES family (raw Modbus register access next to its AA55 commands)
        step = ["api", "read_setting", "modbus-400"] if kind == "read" else ["api", "write_setting", "modbus-400", -2]
    elif entry == "named":              # write of a NAMED setting (single-register write; ET and DT offer 'grid_export_limit')
        step = ["api", "write_setting", "grid_export_limit", 50]
    elif entry == "unit":      # the command object was built for unit 0x7F / 0x11, the transport object for the inverter's default address
        step = ["unitcmd", kind, 0x7F if code % 2 else 0x11, 400, {"read": 3, "write": -2, "multi": "00010002fffe"}[kind]]
    else:
        step = {"read": ["read", 400, 3], "write": ["write", 400, -2], "multi": ["multi", 400, "00010002fffe"]}[kind]
    return {"transport": transport, "framing": framing, "keep_alive": ka, "T": T, "R": R, "code": code, "j": j,
            "kind": kind, "entry": entry, "delay": delay, **({"family": "DT"} if entry in ("public-dt",) or (entry == "named" and code % 2) else {"family": "ES"} if entry == "public-es" else {}),
            "script": ["drop"] * j + [["exc", code, delay]], "after": "drop",
            "tasks": [{"start": 0.0, "steps": [step]}]}


def scenario_second(transport, ka, T, R, kind, code, gap, delay):
    """request A is rejected at once; after `gap` request B (same object, connection possibly kept alive) gets its exception frame
    `delay` after its transmission - i.e. after A's original deadline but inside B's own timeout."""
    sc = scenario(transport, ka, T, R, kind, code, 0, delay, "protocol")
    first = {"read": ["read", 399, 1], "write": ["write", 399, 5], "multi": ["multi", 399, "0001"]}[kind]
    sc["by_reg"] = {399: [["exc", 2, 0.0]], 400: [["exc", code, delay]]}
    sc["script"] = []
    # gap None: request B is issued straight after A's rejection without yielding to the loop (as the ET/DT fallbacks do)
    sc["tasks"] = [{"start": 0.0, "steps": [first] + ([["sleep", gap]] if gap is not None else []) + [sc["tasks"][0]["steps"][0]]}]
    sc["second"] = True
    return sc


def scenario_after_retransmission(transport, ka, T, R, kind, code):
    """request A loses its first transmission and is served on the retransmission; request B on the same object is then answered by an
    exception frame at once: B is rejected at once (nothing learnt from A's retransmission may delay or drop B's answer)"""
    sc = scenario(transport, ka, T, R, kind, code, 0, 0.0, "protocol")
    first = {"read": ["read", 399, 1], "write": ["write", 399, 5], "multi": ["multi", 399, "0001"]}[kind]
    sc["by_reg"] = {399: ["drop", "now"], 400: [["exc", code, 0.0]]}
    sc["script"] = []
    sc["tasks"] = [{"start": 0.0, "steps": [first, sc["tasks"][0]["steps"][0]]}]
    sc["second"] = True
    sc["after_retx"] = True
    return sc


def scenario_same_request_again(transport, ka, T, R, kind, code, gap):
    """the SAME request is issued twice in a row (an application polling a register the inverter refuses) and refused both times with the same
    exception frame - on RTU the two frames are byte-identical: the second call is rejected at once like the first"""
    sc = scenario(transport, ka, T, R, kind, code, 0, 0.0, "protocol")
    step = sc["tasks"][0]["steps"][0]
    sc["by_reg"] = {400: [["exc", code, 0.0], ["exc", code, 0.0], ["exc", code, 0.0]]}
    sc["script"] = []
    sc["tasks"] = [{"start": 0.0, "steps": [step] + ([["sleep", gap]] if gap else []) + [step]}]
    sc["second"] = True
    sc["same_again"] = True
    return sc


def scenario_public_after_failure(transport, ka, T, R, kind, code, fam):
    """through the inverter object: a request that gets no answer at all (fails after its retries), then a request answered with an exception
    frame: the second one is rejected at once, sent once - a failure before it changes nothing"""
    sc = scenario(transport, ka, T, R, kind, code, 0, 0.0, "public")
    step = sc["tasks"][0]["steps"][0]
    first = ["rsensor", 399] if kind == "read" else ["wsetting", 399, 7]
    if fam == "ES":         # (the ES class reaches raw Modbus registers through read_setting / write_setting only)
        first = ["api", "read_setting", "modbus-399"] if kind == "read" else ["api", "write_setting", "modbus-399", 7]
        step = ["api", "read_setting", "modbus-400"] if kind == "read" else ["api", "write_setting", "modbus-400", -2]
    sc["by_reg"] = {399: [], 400: [["exc", code, 0.0], ["now"], ["now"]]}
    sc["script"] = []
    sc["family"] = fam
    sc["tasks"] = [{"start": 0.0, "steps": [first, step]}]
    sc["second"] = True
    sc["after_failure"] = True
    return sc


def scenario_fragment_first(transport, ka, T, R, code, k):
    """transmission 1 of a read is answered by a lone fragment of k bytes (times out), transmission 2 by the exception frame."""
    sc = scenario(transport, ka, T, R, "read", code, 1, 0.0, "protocol")
    sc["script"] = [["frag1", k], ["exc", code, 0.0]]
    sc["frag_first"] = k
    return sc


def scenario_fragment_then_exception(transport, ka, T, R, code, count, k, d):
    """the answer to a read of `count` registers begins (k bytes arrive), then the inverter sends an exception frame instead of the rest (d later,
    within the same attempt): the exception frame is an answer of its own and rejects the request when it arrives. (Left out: an exception frame
    exactly as long as the missing rest - the continuation rule of C07 takes a piece of exactly that length as the rest, by design.)"""
    sc = scenario(transport, ka, T, R, "read", code, 0, 0.0, "protocol")
    sc["tasks"] = [{"start": 0.0, "steps": [["read", 400, count]]}]
    sc["script"] = [["fragexc", k, code, d]]
    sc["frag_exc"] = [count, k, d]
    return sc


def scenario_mbap(ka, T, R, kind, code, j, mlen):
    """Modbus/TCP: the exception frame carries a wrong MBAP length (the library ignores that field on purpose - GoodWe firmware
    copies the request's length into answers); it is still an exception answer and must reject at once."""
    sc = scenario("tcp", ka, T, R, kind, code, j, 0.0, "protocol")
    sc["script"] = ["drop"] * j + [["excmbap", code, mlen]]
    sc["mbap"] = mlen
    return sc


def check_run(sc, run, part: Part):
    tr = sc["transport"]
    out = []
    if run.stop:
        return [(f"C08/{tr}/hang", run.stop)]
    rec = [c for c in run.calls if c["step"][0] != "sleep"][-1]
    want = rc.reason(sc["code"])
    ctx = f"{sc['kind']} code={sc['code']} after {sc['j']} drops keep_alive={sc['keep_alive']} delay={sc['delay']} entry={sc['entry']}"
    start = next(i for i, e in enumerate(run.events) if e[1] == "call" and e[2] == rec["id"])
    deliveries = [(i, e) for i, e in enumerate(run.events) if e[1] == "rx" and i > start]
    txs = [(i, e) for i, e in enumerate(run.events) if e[1] == "tx" and i > start]
    if sc.get("second"):
        ctx += " as the second request on the same object"
    if sc.get("mbap"):
        ctx += f" with MBAP length field {sc['mbap']} instead of 3"
    if sc.get("frag_exc"):
        ctx += f" following the first {sc['frag_exc'][1]} bytes of a regular answer to a read of {sc['frag_exc'][0]} registers by {sc['frag_exc'][2]} s"
    if sc.get("frag_first"):
        ctx += f" after a lone {sc['frag_first']}-byte fragment answered transmission 1"
    if rec["outcome"] != "RequestRejectedException":
        out.append((f"C08/{tr}/not-rejected", f"{ctx}: outcome {rec['outcome']} ({rec.get('msg', '')[:60]})"))
        return out
    if rec.get("msg") != want:
        out.append((f"C08/{tr}/wrong-reason", f"{ctx}: message {rec.get('msg')!r}, expected {want!r}"))
    if not deliveries:
        out.append((f"C08/{tr}/no-delivery", f"{ctx}: rejected without any delivery"))
        return out
    di, de = deliveries[-1]
    if abs(rec["t1"] - de[0]) > EPS:
        out.append((f"C08/{tr}/not-immediate", f"{ctx}: exception frame delivered at {de[0]}, call returned at {rec['t1']}"))
    if any(i > di for i, _ in txs):
        out.append((f"C08/{tr}/retransmitted-after-exception", f"{ctx}: a transmission followed the exception frame"))
    if len(txs) != sc["j"] + 1:
        out.append((f"C08/{tr}/transmission-count", f"{ctx}: {len(txs)} transmissions, expected {sc['j'] + 1}"))
    if not out:
        part.count("rejected_" + tr)
        if sc["j"]:
            part.count("after_drops")
        if sc["delay"]:
            part.count("delayed_exception")
        if want == "UNKNOWN":
            part.count("unknown_code")
        if sc["entry"] == "public":
            part.count("public_entry")
        if sc["entry"] == "unit":
            part.count("command_for_another_unit")
        if sc["entry"] == "public-dt":
            part.count("public_entry_dt")
        if sc["entry"] == "public-es":
            part.count("public_entry_es")
        if sc["entry"] == "named":
            part.count("named_setting_write")
        if sc.get("second"):
            part.count("second_request_rejected")
        if sc.get("after_failure"):
            part.count("rejected_after_a_failed_request_on_the_same_object")
        if sc.get("same_again"):
            part.count("same_request_rejected_twice_in_a_row")
        if sc.get("after_retx"):
            part.count("rejected_after_a_request_served_on_retransmission")
        if sc.get("frag_first"):
            part.count("rejected_after_lone_fragment")
        if sc.get("frag_exc"):
            part.count("exception_after_begun_answer")
        if sc.get("mbap"):
            part.count("tcp_exception_with_wrong_mbap_length")
    return out


def run_case(sc, part):
    run = engine.run_scenario(sc, quiesce=False)
    part.evaluations += 1
    vs = check_run(sc, run, part)
    part.see(repr((sc["transport"], sc["keep_alive"], sc["kind"], sc["code"], sc["j"], sc["delay"], sc["entry"], sc.get("second"), sc.get("frag_first"), sc.get("mbap"), sc.get("frag_exc"))))
    for key, msg in vs:
        part.violate(key, msg, {"scenario": sc, "calls": run.calls, "events": engine.jsonable_events(run.events, 60)})
    if part.evaluations % 701 == 3:
        part.sample({"scenario": {k: sc[k] for k in ("transport", "keep_alive", "kind", "code", "j", "delay", "entry")},
                     "outcome": run.calls[0]["outcome"], "message": run.calls[0].get("msg"),
                     "wire": [[e[0], e[1], e[4].hex()] for e in run.events if e[1] in ("tx", "rx")]})
    return vs


def two_objects_part(part):
    """two Modbus/TCP inverter objects whose requests overlap in time; both inverters answer with an exception frame (after a latency):
    each object must be rejected the moment ITS frame arrives"""
    import asyncio
    from .. import env, sims
    g = env.goodwe()
    for code in (1, 2, 3, 4, 6, 11, 200):
        for ka in (False, True):
            for da, db, off in ((0.3, 0.1, 0.05), (0.2, 0.4, 0.0), (0.5, 0.5, 0.25), (0.1, 0.3, 0.05)):
                sa, sb = sims.ModbusSim("invA"), sims.ModbusSim("invB")
                sa.delay, sb.delay = da, db
                sa.exc_map[(3, 700)] = code
                sb.exc_map[(3, 701)] = 2
                out = {}

                async def flow(loop):
                    A, B = g.ET("invA", 502, 0, 1, 1), g.ET("invB", 502, 0, 1, 1)
                    A.set_keep_alive(ka)
                    B.set_keep_alive(ka)

                    async def one(inv, name, reg, start):
                        await asyncio.sleep(start)
                        t0 = loop.time()
                        try:
                            await inv._read_from_socket(inv._read_command(reg, 2))
                            out[name] = ("ok", "", loop.time() - t0)
                        except Exception as e:      # noqa
                            out[name] = (type(e).__name__, getattr(e, "message", ""), loop.time() - t0)
                    await asyncio.gather(one(A, "A", 700, 0.0), one(B, "B", 701, off))

                run = engine.run_custom({("invA", 502): sa, ("invB", 502): sb}, flow)
                part.evaluations += 1
                part.count("two_tcp_objects_overlapping")
                part.see(f"two-objects|{code}|{ka}|{da}|{db}|{off}")
                for name, want_msg, d in (("A", rc.reason(code), da), ("B", rc.reason(2), db)):
                    o = out.get(name)
                    if run.stop or not o or o[0] != "RequestRejectedException" or o[1] != want_msg or abs(o[2] - d) > EPS:
                        part.violate("C08/tcp/not-rejected" if not o or o[0] != "RequestRejectedException" else "C08/tcp/not-immediate",
                                     f"two Modbus/TCP inverter objects with overlapping requests (keep_alive={ka}): object {name}'s inverter answered with "
                                     f"exception {want_msg!r} {d} s after the request; the call ended {o} {run.stop or ''}",
                                     {"two_objects": True})


def connect_entry_part(part):
    """the documented way to obtain an inverter object - goodwe.connect(host, port, family, ...) - against an inverter that answers the identification
    read with an exception frame: the caller gets RequestRejectedException with the standard reason, at once, after one transmission"""
    from .. import env, models
    g = env.goodwe()
    for fam, reg in (("ET", 35000), ("DT", 30001)):
        for port in (8899, 502):
            for code in (2, 4, 6, 1, 200):
                sim = models.family_sim(fam)
                sim.exc_map[(3, reg)] = code
                res = {}

                async def flow(loop):
                    t0 = loop.time()
                    try:
                        await g.connect("inv0", port, fam, 0, 1, 2)
                        res["out"] = ("returned", "")
                    except Exception as e:      # noqa
                        res["out"] = (type(e).__name__, getattr(e, "message", str(e)))
                    res["dt"] = loop.time() - t0
                run = engine.run_custom({("inv0", port): sim}, flow, vtime_cap=600, tx_cap=600)
                part.evaluations += 1
                tr = "udp" if port == 8899 else "tcp"
                case = {"connect_entry": True}
                ctx = f"connect(family={fam!r}) port {port}: identification read answered with exception code {code}"
                if run.stop or run.error is not None:
                    part.violate(f"C08/{tr}/hang", f"{ctx}: {run.stop or repr(run.error)}", case)
                    continue
                want = rc.reason(code)
                if res["out"][0] != "RequestRejectedException":
                    part.violate(f"C08/{tr}/not-rejected", f"{ctx}: ended {res['out'][0]} ({str(res['out'][1])[:80]})", case)
                elif res["out"][1] != want:
                    part.violate(f"C08/{tr}/wrong-reason", f"{ctx}: message {res['out'][1]!r}, expected {want!r}", case)
                elif len(sim.log) != 1 or res["dt"] > 1e-6:
                    part.violate(f"C08/{tr}/not-immediate", f"{ctx}: {len(sim.log)} transmissions, ended after {res['dt']} s", case)
                else:
                    part.count("rejected_through_connect")
                part.see(f"connect|{fam}|{port}|{code}")


def family_level_part(part):
    connect_entry_part(part)
    """polls of ET models: (a) the 125-register meter read is refused with ILLEGAL DATA ADDRESS (the documented fallback follows) and the
    58-register read of the SAME poll is answered with another exception code; (b) each single block of the poll in turn (running data,
    battery, second battery, each meter block, MPPT) is answered with an exception code other than ILLEGAL DATA ADDRESS: that rejection must
    surface from read_runtime_data() with its reason, at once and with the block transmitted exactly once"""
    from .. import env, models
    g = env.goodwe()
    cases = []
    for port in (8899, 502):
        for code in (6, 3, 4, 200):
            cases.append((port, code, {"tag": "ETU", "rated": 20000, "refused_blocks": ["meter_ext2"]}, (3, 36000, 58),
                          "meter read 36000x125 refused (code 2), the fallback read 36000x58"))
    for kw in ({"tag": "ETU", "rated": 20000}, {"tag": "ETT", "rated": 10000}, {"tag": "ETU", "rated": 5000}):
        sim = models.et_sim(**kw)
        sim.regs[35184] = 2
        blocks = []

        async def probe(loop):
            inv = g.ET("inv0", 8899, 0, 1, 0)
            await inv.read_device_info()
            n0 = len(sim.log)
            await inv.read_runtime_data()
            blocks.extend((r[2]["reg"], r[2]["count"]) for r in sim.log[n0:])
        engine.run_custom({("inv0", 8899): sim}, probe, vtime_cap=600, tx_cap=600)
        for reg, count in blocks:
            for port, code in ((8899, 6), (502, 4), (8899, 0), (502, 11)):
                cases.append((port, code, kw, (3, reg, count), f"block read {reg}x{count} of the poll"))
            part.count("poll_blocks_rejected_in_turn")
    for port, code, kw, block, what in cases:
        sim = models.et_sim(**kw)
        sim.regs[35184] = 2
        sim.exc_map[block] = code
        res = {}

        async def flow(loop):
            inv = g.ET("inv0", port, 0, 1, 2)
            await inv.read_device_info()
            t0 = loop.time()
            res["n0"] = len(sim.log)
            try:
                await inv.read_runtime_data()
                res["out"] = ("returned", "")
            except Exception as e:      # noqa
                res["out"] = (type(e).__name__, getattr(e, "message", str(e)))
            res["dt"] = loop.time() - t0
        run = engine.run_custom({("inv0", port): sim}, flow, vtime_cap=600, tx_cap=600)
        part.evaluations += 1
        part.count("family_level_rejection")
        tr = "udp" if port == 8899 else "tcp"
        tag = f"ET({kw['tag']}, {kw['rated']} W).read_runtime_data(): {what} answered with exception {code}"
        if run.stop or run.error is not None or res.get("out") != ("RequestRejectedException", rc.reason(code)):
            part.violate(f"C08/{tr}/not-rejected",
                         f"{tag}: ended {res.get('out')} {run.stop or ''} instead of RequestRejectedException({rc.reason(code)!r})", {"family_level": True})
        elif res["dt"] > 1e-6:
            part.violate(f"C08/{tr}/rejection-not-immediate", f"{tag}: the poll ended {res['dt']} s after it began (virtual clock, all answers immediate)",
                         {"family_level": True})
        else:
            sent = [r for r in sim.log[res["n0"]:] if (r[2]["reg"], r[2]["count"]) == block[1:]]
            if len(sent) != 1:
                part.violate(f"C08/{tr}/retransmission-after-rejection", f"{tag}: that block was transmitted {len(sent)} times", {"family_level": True})
        part.see(f"family-level|{port}|{code}|{kw['tag']}|{block}")


def capability_probe_part(part):
    """ET.read_device_info() probes two optional setting blocks (eco-mode v2 at 47547, peak shaving at 47589); only the exact reason
    'ILLEGAL DATA ADDRESS' means "this firmware lacks the block": a probe answered with any OTHER exception code (busy, device failure,
    unknown code) must leave the object offering exactly what it offers when the probe is answered normally"""
    from .. import env, models
    g = env.goodwe()

    def offered(port, exc):
        sim = models.et_sim()
        sim.regs[35019] = 22           # ARM firmware that knows both blocks
        for k, v in exc.items():
            sim.exc_map[k] = v
        out = {}

        async def flow(loop):
            inv = g.ET("inv0", port, 0, 1, 0)
            await inv.read_device_info()
            out["modes"] = sorted(m.name for m in await inv.get_operation_modes(True))
            out["settings"] = sorted(x.id_ for x in inv.settings())
        run = engine.run_custom({("inv0", port): sim}, flow, vtime_cap=600, tx_cap=600)
        return (run.stop or (repr(run.error) if run.error is not None else None)), out

    for port in (8899, 502):
        err0, base = offered(port, {})
        if err0:
            part.violate(f"C08/{'udp' if port == 8899 else 'tcp'}/not-rejected", f"capability probes: baseline run failed: {err0}", {"probe": True})
            continue
        for reg in (47547, 47589):
            err2, lacking = offered(port, {(3, reg): 2})
            for code in (6, 4, 1, 3, 200, 0):
                err, got = offered(port, {(3, reg): code})
                part.evaluations += 1
                tr = "udp" if port == 8899 else "tcp"
                # (judged by the operation modes the object offers - what the capability flags decide; the optional settings themselves are
                #  only registered by a probe that was ANSWERED, whatever the reason of a refusal)
                if err or got.get("modes") != base.get("modes"):
                    diff = sorted(set(base.get("modes", [])) ^ set(got.get("modes", [])))
                    part.violate(f"C08/{tr}/reason-other-than-illegal-address-taken-for-unsupported",
                                 f"ET.read_device_info(): probe of {reg} answered with exception {code} ({rc.reason(code)}): {err or ''} the object now differs from one whose "
                                 f"probe was answered normally in {diff}" + (" - exactly as if the answer had been ILLEGAL DATA ADDRESS" if got.get("modes") == lacking.get("modes") else ""),
                                 {"probe": True})
                else:
                    part.count("capability_probe_other_reasons")
        part.see(f"probe|{port}")


def compound_calls_part(part):
    """public calls that consist of several requests (operation-mode setters, export limit, depth of discharge, one-byte settings): each
    WRITE of the sequence in turn is answered with an exception frame; the call must end with RequestRejectedException(reason) and the
    refused write must not be transmitted again (the sequence is first recorded against an inverter that accepts everything)"""
    from .. import env, models
    g = env.goodwe()
    OM = g.OperationMode

    def calls_of(fam):
        cs = [("set_grid_export_limit", 1500), ("write_setting", "grid_export_limit", 40)]
        if fam != "DT":
            cs += [("set_ongrid_battery_dod", 40), ("write_setting", "eco_mode_1_switch", -1), ("set_operation_mode", OM.GENERAL),
                   ("set_operation_mode", OM.BACKUP), ("set_operation_mode", OM.ECO), ("set_operation_mode", OM.ECO_CHARGE, 40, 70),
                   ("set_operation_mode", OM.ECO_DISCHARGE, 35), ("set_operation_mode", OM.OFF_GRID), ("set_operation_mode", OM.PEAK_SHAVING, 30, 50)]
        return cs

    def mksim(fam, variant):
        if fam == "ET":
            return models.et_sim(tag="ETU" if variant == 0 else "ETT", rated=10000, refused_blocks=["eco_v2"] if variant == 2 else [])
        if fam == "DT":
            return models.dt_sim(tag="DTU" if variant == 0 else "DSN")
        return models.es_sim(fw=b"2225F")

    for fam, port, variant in (("ET", 8899, 0), ("ET", 502, 1), ("ET", 8899, 2), ("DT", 8899, 0), ("DT", 502, 1), ("ES", 8899, 0)):
        for call in calls_of(fam):
            sim = mksim(fam, variant)
            st = {}

            async def probe(loop):
                inv = models.family_cls(g, fam)("inv0", port, 0, 1, 1)
                await inv.read_device_info()
                st["n0"] = len(sim.log)
                await getattr(inv, call[0])(*call[1:])
            run = engine.run_custom({("inv0", port): sim}, probe, vtime_cap=600, tx_cap=600)
            if run.stop or run.error is not None:
                continue            # (a mode this model does not offer, a setting it lacks: not a compound call of this model)
            # (ES: the Modbus READS of a compound call as well - its setters read the current group / register first and act on the answer;
            #  the ET setters make such reads through the best-effort helper that deliberately maps a refusal to "unknown")
            kinds = ("write", "multi", "read") if fam == "ES" else ("write", "multi")
            writes = [(i, r[2]) for i, r in enumerate(sim.log[st["n0"]:]) if r[2]["kind"] in kinds]
            for k, (idx, wreq) in enumerate(writes):
                code = (6, 3, 4, 1)[k % 4]
                sim2 = mksim(fam, variant)
                key = (rc.fc_of(wreq), wreq["reg"])
                nth = sum(1 for _, w in writes[:k] if (rc.fc_of(w), w["reg"]) == key)      # the same register may be written twice in one call
                seen = {"n": 0}
                orig = sim2.handle

                def handle(req, kind, _o=orig, _key=key, _nth=nth, _seen=seen, _code=code):
                    if req["kind"] in ("write", "multi", "read") and (rc.fc_of(req), req["reg"]) == _key:
                        _seen["n"] += 1
                        if _seen["n"] >= _nth + 1:
                            return (rc.tcp_exception if kind == "tcp" else rc.rtu_exception)(req, _code)
                    return _o(req, kind)
                sim2.handle = handle
                res = {}

                async def flow(loop):
                    inv = models.family_cls(g, fam)("inv0", port, 0, 1, 1)
                    await inv.read_device_info()
                    try:
                        await getattr(inv, call[0])(*call[1:])
                        res["out"] = ("returned", "")
                    except Exception as e:      # noqa
                        res["out"] = (type(e).__name__, getattr(e, "message", str(e)))
                run2 = engine.run_custom({("inv0", port): sim2}, flow, vtime_cap=600, tx_cap=600)
                part.evaluations += 1
                tr = "udp" if port == 8899 else "tcp"
                what = f"{fam}.{call[0]}{tuple(str(a) for a in call[1:])}: request #{k + 1} of the sequence ({wreq['kind']} {wreq['reg']}) answered with exception {code}"
                if run2.stop or run2.error is not None or res.get("out") != ("RequestRejectedException", rc.reason(code)):
                    part.violate(f"C08/{tr}/not-rejected", f"{what}: ended {res.get('out')} {run2.stop or ''} instead of "
                                 f"RequestRejectedException({rc.reason(code)!r})", {"compound": True})
                elif seen["n"] - nth != 1:
                    part.violate(f"C08/{tr}/retransmitted-after-exception", f"{what}: the refused write was transmitted {seen['n'] - nth} times", {"compound": True})
                else:
                    part.count("compound_call_write_rejected")
                part.see(f"compound|{fam}|{port}|{call[0]}|{call[1] if len(call) > 1 else ''}|{k}")


def plan(tier, seed):
    specs = []
    for transport in ("udp", "tcp"):
        for ka in (False, True):
            for kind in ("read", "write", "multi"):
                specs.append({"transport": transport, "ka": ka, "kind": kind, "R": 3 if tier == "quick" else 4,
                              "Ts": [1] if tier == "quick" else [1, 0.5, 3, 0.25, 10]})
    return specs


def run_shard(spec):
    part = Part()
    R = spec["R"]
    if spec["transport"] == "tcp" and spec["kind"] == "read" and spec["ka"]:
        two_objects_part(part)
        family_level_part(part)
    if spec["transport"] == "udp" and spec["kind"] == "write" and spec["ka"]:
        compound_calls_part(part)
        capability_probe_part(part)
    for T in spec["Ts"]:
        for code in range(256):
            for j in range(R + 1):
                for delay in (0.0, 0.5 * T):
                    run_case(scenario(spec["transport"], spec["ka"], T, R, spec["kind"], code, j, delay, "protocol"), part)
            if spec["kind"] != "multi":
                for j in (0, R):
                    run_case(scenario(spec["transport"], spec["ka"], T, R, spec["kind"], code, j, 0.0, "public"), part)
            for j in (0, 1):
                run_case(scenario(spec["transport"], spec["ka"], T, R, spec["kind"], code, j, 0.0, "unit"), part)
            if spec["kind"] != "multi":
                run_case(scenario(spec["transport"], spec["ka"], T, R, spec["kind"], code, 0, 0.0, "public-dt"), part)
                run_case(scenario(spec["transport"], spec["ka"], T, R, spec["kind"], code, code % 2, 0.0, "public-es"), part)
            if spec["kind"] == "write":
                for j in (0, 1):
                    run_case(scenario(spec["transport"], spec["ka"], T, R, "write", code, j, 0.0, "named"), part)
            if code % 16 == 2 or code in (1, 3, 4, 6):
                for gap, delay in ((0.5 * T, 0.8 * T), (0.25 * T, 0.9 * T), (None, 0.5 * T), (None, 0.0)):
                    run_case(scenario_second(spec["transport"], spec["ka"], T, R, spec["kind"], code, gap, delay), part)
                run_case(scenario_after_retransmission(spec["transport"], spec["ka"], T, R, spec["kind"], code), part)
                if spec["kind"] != "multi":
                    for fam_ in ("ET", "DT", "ES"):
                        run_case(scenario_public_after_failure(spec["transport"], spec["ka"], T, 1, spec["kind"], code, fam_), part)
                for gap in (None, 0.5 * T, 3 * T):
                    run_case(scenario_same_request_again(spec["transport"], spec["ka"], T, R, spec["kind"], code, gap), part)
                if spec["transport"] == "tcp":
                    for mlen in (6, 11, 0, 2, 4, 255):
                        for j in (0, R):
                            run_case(scenario_mbap(spec["ka"], T, R, spec["kind"], code, j, mlen), part)
                if spec["kind"] == "read":
                    # (read of 3 registers: RTU answer = 13 bytes, Modbus/TCP answer = 15 bytes; k stays below the full frame)
                    for k in range(5 if spec["transport"] == "udp" else 9, 13 if spec["transport"] == "udp" else 15):
                        run_case(scenario_fragment_first(spec["transport"], spec["ka"], T, R, code, k), part)
                    udp_ = spec["transport"] == "udp"
                    for count in (3, 10, 33, 125):
                        full_, exc_ = (2 * count + (7 if udp_ else 9)), (7 if udp_ else 9)
                        for k in sorted({5 if udp_ else 9, 6 if udp_ else 10, full_ // 2, full_ - exc_ - 1, full_ - exc_ + 1, full_ - 2}):
                            if not (5 if udp_ else 9) <= k < full_ or full_ - k == exc_:
                                continue
                            for d in ((0.0, 0.3 * T) if udp_ else (0.3 * T,)):       # (one TCP segment could carry both pieces if sent in the same instant)
                                run_case(scenario_fragment_then_exception(spec["transport"], spec["ka"], T, R, code, count, k, d), part)
    return part


def replay(case):
    part = Part()
    if case.get("connect_entry"):
        connect_entry_part(part)
        return [{"key": v["key"], "msg": v["msg"]} for v in part.violations]
    if case.get("family_level"):
        family_level_part(part)
        return [{"key": v["key"], "msg": v["msg"]} for v in part.violations]
    if case.get("probe"):
        capability_probe_part(part)
        return [{"key": v["key"], "msg": v["msg"]} for v in part.violations]
    if case.get("compound"):
        compound_calls_part(part)
        return [{"key": v["key"], "msg": v["msg"]} for v in part.violations]
    if case.get("two_objects"):
        two_objects_part(part)
        return [{"key": v["key"], "msg": v["msg"]} for v in part.violations]
    vs = run_case(case["scenario"], part)
    return [{"key": k, "msg": m} for k, m in vs]
