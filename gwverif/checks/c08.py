"""C08  Modbus exception answers surface at once as RequestRejectedException(reason) (fault_enumeration)."""
from __future__ import annotations

from .. import engine
from .. import refcodec as rc
from ..runner import Part

PROPERTY = "C08"
LEVEL = "fault_enumeration"
RULE = ("exception codes 0..255 x {read, write, write-multi} x {udp-rtu, tcp} x keep-alive x preceded by j in 0..R "
        "dropped transmissions x exception delivered promptly or half a timeout late x entry through the protocol-level "
        "request and through read_sensor/write_setting('modbus-N'); complete enumeration; distinct = distinct "
        "(transport, keep-alive, command kind, code, j, delay, entry) tuples")
ASSUMPTIONS = ["reason texts are the standard Modbus exception names (table copied from the specification into refcodec)",
               "virtual clock: 'at once' means zero virtual time between delivery of the exception frame and the return"]
MUST = ["rejected_udp", "rejected_tcp", "after_drops", "delayed_exception", "unknown_code", "public_entry"]
EXHAUSTIVE = {"quick": True, "thorough": True}
EPS = 1e-6


def scenario(transport, ka, T, R, kind, code, j, delay, entry):
    framing = "rtu" if transport == "udp" else "tcp"
    if entry == "public":
        step = ["rsensor", 400] if kind == "read" else ["wsetting", 400, -2]
    else:
        step = {"read": ["read", 400, 3], "write": ["write", 400, -2], "multi": ["multi", 400, "00010002fffe"]}[kind]
    return {"transport": transport, "framing": framing, "keep_alive": ka, "T": T, "R": R, "code": code, "j": j,
            "kind": kind, "entry": entry, "delay": delay,
            "script": ["drop"] * j + [["exc", code, delay]], "after": "drop",
            "tasks": [{"start": 0.0, "steps": [step]}]}


def check_run(sc, run, part: Part):
    tr = sc["transport"]
    out = []
    if run.stop:
        return [(f"C08/{tr}/hang", run.stop)]
    rec = run.calls[0]
    want = rc.reason(sc["code"])
    ctx = f"{sc['kind']} code={sc['code']} after {sc['j']} drops keep_alive={sc['keep_alive']} delay={sc['delay']} entry={sc['entry']}"
    deliveries = [(i, e) for i, e in enumerate(run.events) if e[1] == "rx"]
    txs = [(i, e) for i, e in enumerate(run.events) if e[1] == "tx"]
    if rec["outcome"] != "RequestRejectedException":
        out.append((f"C08/{tr}/not-rejected", f"{ctx}: outcome {rec['outcome']} ({rec.get('msg', '')[:60]})"))
        return out
    if rec.get("msg") != want:
        out.append((f"C08/{tr}/wrong-reason", f"{ctx}: message {rec.get('msg')!r}, expected {want!r}"))
    if not deliveries:
        out.append((f"C08/{tr}/no-delivery", f"{ctx}: rejected without any delivery"))
        return out
    di, de = deliveries[-1]
    if abs(rec["t1"] - de[0]) > EPS:
        out.append((f"C08/{tr}/not-immediate", f"{ctx}: exception frame delivered at {de[0]}, call returned at {rec['t1']}"))
    if any(i > di for i, _ in txs):
        out.append((f"C08/{tr}/retransmitted-after-exception", f"{ctx}: a transmission followed the exception frame"))
    if len(txs) != sc["j"] + 1:
        out.append((f"C08/{tr}/transmission-count", f"{ctx}: {len(txs)} transmissions, expected {sc['j'] + 1}"))
    if not out:
        part.count("rejected_" + tr)
        if sc["j"]:
            part.count("after_drops")
        if sc["delay"]:
            part.count("delayed_exception")
        if want == "UNKNOWN":
            part.count("unknown_code")
        if sc["entry"] == "public":
            part.count("public_entry")
    return out


def run_case(sc, part):
    run = engine.run_scenario(sc, quiesce=False)
    part.evaluations += 1
    vs = check_run(sc, run, part)
    part.see(repr((sc["transport"], sc["keep_alive"], sc["kind"], sc["code"], sc["j"], sc["delay"], sc["entry"])))
    for key, msg in vs:
        part.violate(key, msg, {"scenario": sc, "calls": run.calls, "events": engine.jsonable_events(run.events, 60)})
    if part.evaluations % 701 == 3:
        part.sample({"scenario": {k: sc[k] for k in ("transport", "keep_alive", "kind", "code", "j", "delay", "entry")},
                     "outcome": run.calls[0]["outcome"], "message": run.calls[0].get("msg"),
                     "wire": [[e[0], e[1], e[4].hex()] for e in run.events if e[1] in ("tx", "rx")]})
    return vs


def plan(tier, seed):
    specs = []
    for transport in ("udp", "tcp"):
        for ka in (False, True):
            for kind in ("read", "write", "multi"):
                specs.append({"transport": transport, "ka": ka, "kind": kind, "R": 3 if tier == "quick" else 4,
                              "Ts": [1] if tier == "quick" else [1, 0.5, 3]})
    return specs


def run_shard(spec):
    part = Part()
    R = spec["R"]
    for T in spec["Ts"]:
        for code in range(256):
            for j in range(R + 1):
                for delay in (0.0, 0.5 * T):
                    run_case(scenario(spec["transport"], spec["ka"], T, R, spec["kind"], code, j, delay, "protocol"), part)
            if spec["kind"] != "multi":
                for j in (0, R):
                    run_case(scenario(spec["transport"], spec["ka"], T, R, spec["kind"], code, j, 0.0, "public"), part)
    return part


def replay(case):
    part = Part()
    vs = run_case(case["scenario"], part)
    return [{"key": k, "msg": m} for k, m in vs]
