"""C12  Each sensor value is the documented reading of exactly its own registers (exploration)."""
from __future__ import annotations

import random

from .. import blocks, engine, env, models
from .. import refsensors as rs
from ..runner import Part

PROPERTY = "C12"
LEVEL = "exploration"
RULE = ("for every typed sensor of every runtime table of ET, DT (Modbus RTU and Modbus/TCP framing) and ES (AA55), and every "
        "setting read singly: the sensor's own bytes take all 65536 contents of a 2-byte field (thorough) / boundaries + 2048 "
        "random (quick), boundary + random contents for 1/4/6/8-byte fields, inside random surrounding block contents and "
        "for varied block start addresses; Sensor.read() on the real ProtocolResponse is compared with an independent per-type "
        "decoder, the read-log hook checks that only the sensor's own bytes are consumed, re-randomising all other bytes must "
        "not change the value; an end-to-end part reads whole blocks from a simulated inverter (wrong MBAP lengths on Modbus/TCP; ids that name a sensor and a setting read singly in both orders; two DT objects of different phase count alive together); distinct = distinct "
        "(family, framing, sensor id, content class) tuples")
ASSUMPTIONS = [
    "the tables of the library say WHICH typed sensor sits at which register; the interpretation per type name (size, "
    "signedness, scale, sentinel) is the oracle's own, following the type docstrings and tests/test_sensor.py",
    "floats are compared with rel_tol 1e-12 (float(v)/scale vs. exact rational); Float sensors within half a unit of the "
    "third decimal",
    "sensors whose bytes lie outside the fetched window of a block are C14's subject and skipped here for that block",
]
MUST = ["rereads_after_register_change", "schedule_power_readings_checked", "schedule_groups_decoded", "end_to_end_with_refused_blocks", "undecodable_neighbour_in_block", "single_sensor_reads_end_to_end", "sensor_and_setting_of_one_id", "values_checked", "footprint_checked", "noninterference_checked", "sentinel_hit", "shifted_window_checked",
        "end_to_end_values", "single_read_checked", "sensors_covered"]
EXHAUSTIVE = {"quick": False, "thorough": False}

B16 = [0, 1, 2, 9, 10, 99, 100, 0x7F, 0x80, 0xFF, 0x100, 0x7FFE, 0x7FFF, 0x8000, 0x8001, 0xFFFE, 0xFFFF]


def contents(rnd, span, n_rand, full16):
    if span <= 2:
        width = span
        if full16 and span == 2:
            for v in range(65536):
                yield v.to_bytes(2, "big")
            return
        if span == 1:
            for v in range(256):
                yield bytes([v])
            return
        for v in B16:
            yield v.to_bytes(2, "big")
        for v in env.harvest_ints():        # every integer constant of the source under test that fits the field (two's complement)
            if -32768 <= v <= 65535:
                yield (v & 0xFFFF).to_bytes(2, "big")
        for _ in range(n_rand):
            yield rnd.randrange(65536).to_bytes(2, "big")
        return
    bnd = [bytes(span), b"\xff" * span, b"\x7f" + b"\xff" * (span - 1), b"\x80" + bytes(span - 1),
           b"\xff" * (span - 1) + b"\xfe", bytes(span - 1) + b"\x01", b"\x00\x00\x80\x00"[:span].ljust(span, b"\x00"),
           b"\x7f\x80\x00\x00"[:span].ljust(span, b"\x00"), b"\xff\x80\x00\x00"[:span].ljust(span, b"\x00"),
           b"\x7f\xc0\x00\x00"[:span].ljust(span, b"\x00")]
    if span == 6:
        bnd += [bytes([y, rnd.randrange(1, 13), rnd.randrange(1, 29), rnd.randrange(24), rnd.randrange(60), rnd.randrange(60)]) for y in range(256)]
        bnd += [bytes([24, 5, 17, 12, 30, 15]), bytes([0, 1, 1, 0, 0, 0]), bytes([99, 12, 31, 23, 59, 59]), bytes([24, 2, 30, 0, 0, 0]),
                bytes([24, 13, 1, 0, 0, 0]), bytes([24, 1, 1, 24, 0, 0])]
    for b in bnd:
        yield b
    if span in (4, 8):
        for v in env.harvest_ints():
            if abs(v) <= 70000 or span == 8:
                yield (v & ((1 << (8 * span)) - 1)).to_bytes(span, "big")
    for _ in range(max(64, n_rand // 8)):
        yield bytes(rnd.randrange(256) for _ in range(span))


def check_sensor(g, part, rl, rnd, block, sensor, own: bytes, shifted=False):
    try:
        span = rs.own_span(sensor)
    except rs.NoRef:
        return
    pos = blocks.pos_of(block, sensor)
    n = block["nbytes"]
    if pos < 0 or pos + span > n:
        part.count("skipped_outside_window")
        return
    fam, f = block["family"], block["framing"]
    sid = sensor.id_
    surround = bytearray(blocks.styled_payload(rnd, n, rnd.choice(("random", "mixed", "ff", "zero"))))
    surround[pos:pos + span] = own
    resp = blocks.fast_response(g, block, bytes(surround))
    rl.start()
    err = None
    try:
        got = sensor.read(resp)
    except ValueError as e:
        got, err = None, e
    except Exception as e:      # noqa
        part.violate(f"C12/{fam}/{type(sensor).__name__}/read-raises/{type(e).__name__}",
                     f"{fam} {sid} ({type(sensor).__name__}) on own bytes {own.hex()} raised {type(e).__name__}: {e}",
                     {"family": fam, "framing": f, "block": block["name"], "sensor": sid, "own": own.hex()})
        rl.stop()
        return
    log = rl.stop()
    part.evaluations += 1
    part.count("values_checked")
    try:
        want = rs.ref_value(sensor, own)
        undec = False
    except rs.Undecodable:
        want, undec = None, True
    case = {"family": fam, "framing": f, "block": block["name"], "sensor": sid, "own": own.hex(), "shifted": shifted,
            "port": 502 if f == "tcp" else 8899}
    if undec:
        if err is None:
            part.violate(f"C12/{fam}/{type(sensor).__name__}/undecodable-accepted",
                         f"{fam} {sid}: bytes {own.hex()} have no interpretation but read() returned {got!r}", case)
    elif err is not None:
        part.violate(f"C12/{fam}/{type(sensor).__name__}/value-refused",
                     f"{fam} {sid} ({type(sensor).__name__}@{sensor.offset}): bytes {own.hex()} should read {rs.show(want)} but read() raised {err}", case)
    elif not rs.same(got, want):
        part.violate(f"C12/{fam}/{type(sensor).__name__}/wrong-value",
                     f"{fam} {sid} ({type(sensor).__name__}@{sensor.offset}, {f}): own bytes {own.hex()} read {got!r}, documented reading {rs.show(want)}", case)
    if want is None or want == 0:
        if own in (b"\xff" * span, b"\x7f\xff", b"\xff\xff"):
            part.count("sentinel_hit")
    # footprint
    for (_rid, p, req, ret) in log:
        if ret and (p < pos or p + ret > pos + span):
            part.violate(f"C12/{fam}/{type(sensor).__name__}/reads-foreign-bytes",
                         f"{fam} {sid}: consumed bytes [{p},{p + ret}) outside its own registers [{pos},{pos + span})", case)
            break
    part.count("footprint_checked")
    # non-interference (metamorphic): re-randomise everything else
    if err is None and part.evaluations % 7 == 0:
        other = bytearray(blocks.styled_payload(rnd, n, "random"))
        other[pos:pos + span] = own
        try:
            got2 = sensor.read(blocks.fast_response(g, block, bytes(other)))
        except Exception as e:      # noqa
            got2 = e
        part.count("noninterference_checked")
        same = (got2 == got) or (got != got and got2 != got2) or (rs.same(got2, want) and rs.same(got, want))
        if not same:
            part.violate(f"C12/{fam}/{type(sensor).__name__}/depends-on-other-registers",
                         f"{fam} {sid}: value changed from {got!r} to {got2!r} when only OTHER registers changed", case)
    if shifted:
        part.count("shifted_window_checked")
    cls = "sentinel" if own in (b"\xff" * span, bytes(span)) else "value"
    part.see(f"{fam}|{f}|{sid}|{cls}|{shifted}")
    if part.evaluations % 250007 == 11:
        part.sample({"family": fam, "framing": f, "block": block["name"], "sensor": sid, "type": type(sensor).__name__,
                     "register": sensor.offset, "own_bytes": own.hex(), "library_value": repr(got), "reference": rs.show(want)})


def shifted_block(g, block, sensor, rnd):
    """A read window that starts k registers before the sensor (checks address -> byte position mapping)."""
    if block["framing"] == "aa55":
        return None
    span = rs.own_span(sensor)
    regs = (span + 1) // 2
    k = rnd.choice((0, 1, 2, 7, 60))
    first = max(0, sensor.offset - k)
    count = min(125, (sensor.offset - first) + regs + rnd.choice((0, 1, 5)))
    P = g.protocol
    cmd = (P.ModbusRtuReadCommand if block["framing"] == "rtu" else P.ModbusTcpReadCommand)(0xF7, first, count)
    return {"name": block["name"] + "+shift", "cmd": cmd, "sensors": (sensor,), "framing": block["framing"],
            "family": block["family"], "first": first, "count": count, "nbytes": 2 * count}


def direct(spec, part):
    g = env.goodwe()
    rl = rs.ReadLog(g)
    rnd = random.Random(spec["seed"])
    fam, port = spec["family"], spec["port"]
    bl = blocks.family_blocks(g, fam, port)
    todo = []
    for b in bl:
        for sn in b["sensors"]:
            todo.append((b, sn))
    if fam != "ES" or True:
        # settings are read singly: window = the setting's own registers
        for tname, table in blocks.settings_tables(g, fam).items():
            for sn in table:
                if fam == "ES" and sn.offset < 1000:
                    continue
                try:
                    span = rs.own_span(sn)
                except rs.NoRef:
                    continue
                if type(sn).__name__ in ("EcoModeV1", "EcoModeV2", "Schedule", "PeakShavingMode"):
                    continue
                regs = (span + 1) // 2
                P = g.protocol
                framing = "tcp" if port == 502 else "rtu"
                cmd = (P.ModbusTcpReadCommand if port == 502 else P.ModbusRtuReadCommand)(0xF7, sn.offset, regs)
                todo.append(({"name": "setting:" + tname, "cmd": cmd, "sensors": (sn,), "framing": framing, "family": fam,
                              "first": sn.offset, "count": regs, "nbytes": 2 * regs}, sn))
    todo = [t for i, t in enumerate(todo) if i % spec["shards"] == spec["shard"]]
    covered = set()
    for b, sn in todo:
        try:
            span = rs.own_span(sn)
        except rs.NoRef:
            continue
        covered.add((b["name"], sn.id_))
        for own in contents(rnd, span, spec["n_rand"], spec["full16"]):
            if span == 2 and type(sn).__name__ == "ByteL" or type(sn).__name__ == "EnumL":
                pass
            check_sensor(g, part, rl, rnd, b, sn, own)
            if b["name"].startswith("setting:"):
                part.count("single_read_checked")
        sb = shifted_block(g, b, sn, rnd)
        if sb:
            for own in contents(rnd, span, 8, False):
                check_sensor(g, part, rl, rnd, sb, sn, own, shifted=True)
    part.count("sensors_covered", len(covered))


def end_to_end(spec, part):
    """read_runtime_data() through the real transport against a simulated register file."""
    g = env.goodwe()
    rnd = random.Random(spec["seed"])
    for i in range(spec["n"]):
        fam = rnd.choice(("ET", "DT", "ES"))
        port = 8899 if fam == "ES" else rnd.choice((8899, 502))
        style = rnd.choice(("random", "mixed", "sentinel"))
        if fam == "ET":
            # (some firmware refuses optional blocks: after the fallbacks every value still listed is the documented reading of its registers)
            refused = [b for b in ("meter_ext2", "meter_ext", "mppt", "battery2") if rnd.random() < 0.25]
            if "meter_ext" in refused and rnd.random() < 0.7:
                refused.append("meter_ext2")
            sim = models.et_sim(tag=rnd.choice(("ETU", "ETT", "EHU", "BTU")), rated=rnd.choice((5000, 10000, 20000, 30000)),
                                rnd=rnd, style=style, battery_mode=rnd.choice((0, 1, 2)), refused_blocks=sorted(set(refused)))
            if refused:
                part.count("end_to_end_with_refused_blocks")
        elif fam == "DT":
            sim = models.dt_sim(tag=rnd.choice(("DTU", "MSU", "DSN")), rnd=rnd, style=style)
        else:
            sim = models.es_sim(rnd=rnd, style=style)
        if fam != "ES" and rnd.random() < 0.3:
            # an impossible date in the clock registers at the head of the block: every OTHER value must still be its documented reading
            sim.set_bytes(35100 if fam == "ET" else 30100, bytes(rnd.choice(([24, 13, 1, 0, 0, 0], [0, 0, 0, 0, 0, 0], [24, 2, 31, 25, 61, 61], [255] * 6))))
            part.count("undecodable_neighbour_in_block")
        if port == 502 and rnd.random() < 0.6:
            sim.mbap_len_bug = rnd.choice(("request", "bytecount"))     # known GoodWe quirk: the validator ignores that field on purpose
            part.count("tcp_wrong_mbap_length")
        res = {}

        async def flow(loop):
            inv = models.family_cls(g, fam)("inv0", port, 0, 1, 0)
            await inv.read_device_info()
            inv.sensors()
            if fam != "ES" and rnd.random() < 0.5:      # an entity is read singly before the first poll (order of calls is the integration's)
                try:
                    await inv.read_sensor("vpv1")
                except ValueError:
                    pass
            for attempt in range(4):            # (a poll in which a refused block is discovered may be rejected: C15)
                try:
                    res["data"] = await inv.read_runtime_data()
                    break
                except g.exceptions.RequestRejectedException:
                    continue
            res["data"] = await inv.read_runtime_data()
            res["sensors"] = inv.sensors()
            # single reads of a sample of the listed typed sensors (the individual read fetches the item's own registers only)
            res["singles"] = []
            if fam != "ES":
                cand = [x for x in inv.sensors() if getattr(x, "size_", 0) > 0]
                rnd.shuffle(cand)
                big = [x for x in cand if getattr(x, "size_", 0) >= 4][:10]
                fixed = [x for x in cand if x.id_ in ("meter_e_total_exp", "meter_e_total_imp", "meter_voltage1", "meter2_active_power", "pmppt1")]
                for x in fixed + big + cand[:15]:
                    try:
                        v = await inv.read_sensor(x.id_)
                    except ValueError:
                        v = None
                    res["singles"].append((x, v))
            # ids that name a runtime sensor AND a setting (different registers): single reads in either order
            res["shared"] = []
            if fam != "ES":
                sids = {x.id_: x for x in inv.sensors()}
                for st in inv.settings():
                    if st.id_ in sids and (st.offset != sids[st.id_].offset):
                        order = rnd.choice((("sensor", "setting"), ("setting", "sensor"), ("sensor", "setting", "sensor")))
                        for which in order:
                            try:
                                v = await (inv.read_sensor(st.id_) if which == "sensor" else inv.read_setting(st.id_))
                            except ValueError:
                                v = None
                            res["shared"].append((which, sids[st.id_] if which == "sensor" else st, v, order))

        run = engine.run_custom({("inv0", port): sim}, flow)
        part.evaluations += 1
        if run.stop or run.error is not None:
            part.violate(f"C12/{fam}/end-to-end-failed", f"{fam} port {port}: {run.stop or repr(run.error)}",
                         {"e2e": True, "seed": spec["seed"], "i": i})
            continue
        for sn in res["sensors"]:
            try:
                span = rs.own_span(sn)
            except rs.NoRef:
                continue
            if fam == "ES":
                own = bytes(sim.runtime[sn.offset:sn.offset + span])
                if len(own) < span:
                    continue
            else:
                regs = (span + 1) // 2
                own = sim.get_bytes(sn.offset, regs)[:span]
                if fam == "ET" and sn.id_ in ("apparent_power2", "apparent_power3"):
                    continue        # outside the fetched MPPT window: C14's known finding
            try:
                want = rs.ref_value(sn, own)
            except rs.Undecodable:
                want = None
            got = res["data"].get(sn.id_, "<missing>")
            part.count("end_to_end_values")
            # ET meter block: ids 'meter_e_total_exp'/'meter_e_total_imp' appear twice (float and 8-byte); the later wins
            dup = [x for x in res["sensors"] if x.id_ == sn.id_]
            if len(dup) > 1 and dup[-1] is not sn:
                continue
            if not rs.same(got, want):
                part.violate(f"C12/{fam}/{type(sn).__name__}/wrong-value-end-to-end",
                             f"{fam} port {port} {sn.id_}@{sn.offset}: registers {own.hex()} reported as {got!r}, documented reading {rs.show(want)}",
                             {"e2e": True, "seed": spec["seed"], "i": i})
        for sn, got in res.get("singles", []):
            try:
                span = rs.own_span(sn)
                own = sim.get_bytes(sn.offset, (span + 1) // 2)[:span]
                want = rs.ref_value(sn, own)
            except rs.NoRef:
                continue
            except rs.Undecodable:
                want = None
            if len([x for x in res["sensors"] if x.id_ == sn.id_]) > 1:
                continue            # (ids offered twice: which one a single read addresses is C16's subject)
            part.count("single_sensor_reads_end_to_end")
            if not rs.same(got, want):
                part.violate(f"C12/{fam}/{type(sn).__name__}/wrong-value-end-to-end",
                             f"{fam} port {port}: read_sensor('{sn.id_}') @{sn.offset}: registers {own.hex()} reported as {got!r}, documented reading {rs.show(want)}",
                             {"e2e": True, "seed": spec["seed"], "i": i})
        for which, sn, got, order in res.get("shared", []):
            try:
                span = rs.own_span(sn)
                own = sim.get_bytes(sn.offset, (span + 1) // 2)[:span]
                want = rs.ref_value(sn, own)
            except rs.NoRef:
                continue
            except rs.Undecodable:
                want = None
            part.count("sensor_and_setting_of_one_id")
            if not rs.same(got, want):
                part.violate(f"C12/{fam}/{type(sn).__name__}/wrong-value-end-to-end",
                             f"{fam} port {port}: id {sn.id_!r} names a sensor and a setting; single reads in the order {order}: the {which} "
                             f"@{sn.offset} holds {own.hex()} but was reported as {got!r} (documented reading {rs.show(want)})",
                             {"e2e": True, "seed": spec["seed"], "i": i})
        part.see(f"e2e|{fam}|{port}|{style}")


def dt_pair(spec, part):
    """documented per-model table: DT grid_export_limit is Long@40328 on single-phase and Integer@40336 on three-phase models; with one
    object of each kind alive in the process each must still read ITS documented registers."""
    g = env.goodwe()
    rnd = random.Random(spec["seed"])
    for i in range(spec["n"]):
        simA, simB = models.dt_sim("invA", tag=rnd.choice(("DSN", "MSU", "NSU"))), models.dt_sim("invB", tag=rnd.choice(("DTU", "DTS", "DTN")))
        for sim in (simA, simB):
            for a in range(40326, 40340):
                sim.regs[a] = rnd.randrange(1, 0xFFFF)
        order = rnd.choice(("AB", "BA"))
        out = {}

        async def flow(loop):
            A, B = g.DT("invA", 8899, 0, 1, 0), g.DT("invB", 8899, 0, 1, 0)
            for x in order:
                await (A if x == "A" else B).read_device_info()
            out["A"] = await A.read_setting("grid_export_limit")
            out["B"] = await B.read_setting("grid_export_limit")

        run = engine.run_custom({("invA", 8899): simA, ("invB", 8899): simB}, flow)
        part.evaluations += 1
        part.count("dt_phase_pairs")
        part.see(f"dtpair|{order}")
        wantA = rs.u(simA.get_bytes(40328, 2))
        wantB = rs.u(simB.get_bytes(40336, 1))
        if run.stop or run.error is not None or out.get("A") != wantA or out.get("B") != wantB:
            part.violate("C12/DT/setting-read-from-foreign-registers",
                         f"single-phase + three-phase DT objects (device info order {order}): grid_export_limit read as A={out.get('A')} "
                         f"B={out.get('B')}, documented registers hold A(Long@40328)={wantA} B(Integer@40336)={wantB} {run.stop or run.error or ''}",
                         {"dtpair": True, "seed": spec["seed"], "i": i})


def schedule_groups(spec, part):
    """the 8-byte (eco-mode v1) and 12-byte (eco-mode v2 / peak shaving) schedule groups: every field of a decodable group is the documented
    reading of its own bytes - start / end time (one byte each), signed on/off byte, day mask, signed 16-bit power, SoC, month mask - whatever
    the same object decoded before; the power figure in percent is the raw value for the plain eco type and the raw value / 10 for the
    745-platform type (and for a 'not set' group holding more than 100), of the same magnitude for +raw and -raw (charging and discharging at the same rate read alike)"""
    g = env.goodwe()
    S = g.sensor
    PR = g.protocol.ProtocolResponse
    rnd = random.Random(spec["seed"])
    hv = [v for v in env.harvest_ints() if abs(v) <= 1100]
    objs = {"EcoModeV1": S.EcoModeV1("eco_mode_1", 47515, "x"), "EcoModeV2": S.EcoModeV2("eco_mode_1", 47547, "x"),
            "PeakShavingMode": S.PeakShavingMode("peak_shaving_mode", 47589, "x")}
    for it in range(spec["n"]):
        tname = rnd.choice(list(objs))
        sh, sm, eh, em = rnd.randrange(24), rnd.randrange(60), rnd.randrange(24), rnd.randrange(60)
        days = rnd.choice((0x7F, 0, 0x15, rnd.randrange(128)))
        if tname == "EcoModeV1":
            power = rnd.choice((rnd.randrange(-100, 101), rnd.choice(hv))) if rnd.random() < 0.8 else rnd.randrange(-100, 101)
            power = max(-100, min(100, power))
            onoff = rnd.choice((0, 0xFF))
            raw = bytes([sh, sm, eh, em]) + power.to_bytes(2, "big", signed=True) + bytes([onoff, days])
            want = {"start_h": sh, "start_m": sm, "end_h": eh, "end_m": em, "power": power, "on_off": onoff - 256 if onoff > 127 else onoff, "day_bits": days}
            typ = None
        else:
            typ = rnd.choice((0, 0, 6, 6, 85, 3))
            onoff = rnd.choice((typ, 255 - typ)) if typ != 85 else 85
            lim = {0: 100, 6: 1000, 85: 1000, 3: 3000}[typ]
            power = rnd.choice(hv + [rnd.randrange(-lim, lim + 1)] * 3 + [lim, -lim, lim - 1, -lim + 1, 955, -955, 5, -5, 1, -1])
            power = max(-lim, min(lim, power))
            soc, months = rnd.randrange(0, 101), rnd.choice((0, 0x0FFF, 0x0555, rnd.randrange(0x1000)))
            raw = bytes([sh, sm, eh, em, onoff, days]) + power.to_bytes(2, "big", signed=True) + soc.to_bytes(2, "big") + months.to_bytes(2, "big")
            want = {"start_h": sh, "start_m": sm, "end_h": eh, "end_m": em, "power": power, "on_off": onoff - 256 if onoff > 127 else onoff,
                    "day_bits": days, "soc": soc, "month_bits": months}
        sn = objs[tname]
        case = {"schedule": True, "type": tname, "bytes": raw.hex()}
        part.evaluations += 1
        try:
            v = sn.read_value(PR(raw, None))
        except ValueError:
            part.count("schedule_groups_refused")       # (which contents are decodable is C11's subject)
            continue
        except Exception as e:      # noqa
            part.violate(f"C12/settings/{tname}/raises/{type(e).__name__}", f"{tname}.read_value({raw.hex()}) raised {type(e).__name__}: {e}", case)
            continue
        part.count("schedule_groups_decoded")
        bad_f = {k: (getattr(v, k, "<missing>"), w) for k, w in want.items() if getattr(v, k, "<missing>") != w}
        if bad_f:
            part.violate(f"C12/settings/{tname}/wrong-field", f"{tname}.read_value({raw.hex()}): fields (decoded, own bytes) differ: {bad_f}", case)
        if typ is not None:
            gp = v.get_power()
            # (a group never configured - type 0x55 - holds either percent or the 745 platform's tenths: tenths when beyond 100)
            exp_mag = abs(power) if typ in (0, 3) or (typ == 85 and abs(power) <= 100) else abs(power) // 10
            if typ in (0, 6, 85) and (abs(gp) != exp_mag or (gp != 0 and (gp < 0) != (power < 0))):
                part.violate(f"C12/settings/{tname}/wrong-power-reading",
                             f"{tname}.read_value({raw.hex()}) (schedule type {typ}, raw power {power}): get_power() = {gp}, documented reading "
                             f"{'-' if power < 0 else ''}{exp_mag} %", case)
            else:
                part.count("schedule_power_readings_checked")
        part.see(f"schedule|{tname}|{typ}|{power < 0}")


def reread_part(spec, part):
    """one object reads the same setting / sensor singly again and again while the inverter's registers move on between the reads (a few
    virtual milliseconds apart, no write in between): each reading is the documented interpretation of the bytes held AT THAT TIME"""
    g = env.goodwe()
    rnd = random.Random(spec["seed"])
    for fam, port in (("ES", 8899), ("ET", 8899), ("ET", 502), ("DT", 8899), ("DT", 502)):
        sim = models.family_sim(fam, rnd=rnd, style="random")
        results = []

        async def flow(loop):
            import asyncio
            inv = models.family_cls(g, fam)("inv0", port, 0, 1, 0)
            await inv.read_device_info()
            items = [("setting", x) for x in inv.settings()] + [("sensor", x) for x in inv.sensors()]
            rnd.shuffle(items)
            done = 0
            for role, sn in items:
                try:
                    span = rs.own_span(sn)
                except rs.NoRef:
                    continue
                if type(sn).__name__ in ("EcoModeV1", "EcoModeV2", "Schedule", "PeakShavingMode", "Timestamp") or span not in (1, 2, 4):
                    continue
                if role == "sensor" and fam == "ES":
                    continue
                for rep in range(3):
                    # new content of the item's own bytes
                    if fam == "ES" and sn.offset < 1000:
                        if sn.offset + span > len(sim.settings):
                            break
                        sim.settings[sn.offset:sn.offset + span] = bytes(rnd.randrange(1, 120) for _ in range(span))
                        own = bytes(sim.settings[sn.offset:sn.offset + span])
                    else:
                        regs = (span + 1) // 2
                        for a in range(sn.offset, sn.offset + regs):
                            sim.regs[a] = rnd.randrange(1, 30000)
                        own = sim.get_bytes(sn.offset, regs)
                        own = own[:span] if type(sn).__name__ not in ("ByteL", "EnumL") else own
                    try:
                        want = rs.ref_value(sn, own)
                    except (rs.Undecodable, rs.NoRef):
                        break
                    try:
                        got = await (inv.read_setting(sn.id_) if role == "setting" else inv.read_sensor(sn.id_))
                    except (ValueError, g.InverterError):
                        break
                    results.append((role, sn.id_, type(sn).__name__, rep, own.hex(), got, want))
                    await asyncio.sleep(0.005)
                done += 1
                if done >= spec["n"]:
                    break
        run = engine.run_custom({("inv0", port): sim}, flow, vtime_cap=3000, tx_cap=20000)
        if run.stop or run.error is not None:
            part.violate(f"C12/{fam}/run-failed", f"re-reads: {run.stop or repr(run.error)[:120]}", {"reread": True, "seed": spec["seed"]})
            continue
        for role, sid, tn, rep, ownhex, got, want in results:
            part.evaluations += 1
            part.count("rereads_after_register_change")
            if not rs.same(got, want):
                part.violate(f"C12/{fam}/{tn}/stale-or-wrong-value-on-reread",
                             f"{fam} port {port}: read #{rep + 1} of {role} {sid!r} on the same object, registers now {ownhex}: reported {got!r}, "
                             f"documented reading {rs.show(want)}", {"reread": True, "seed": spec["seed"]})
        part.see(f"reread|{fam}|{port}")


def plan(tier, seed):
    specs = []
    shards = 2 if tier == "quick" else 8
    for fam, port in (("ET", 8899), ("ET", 502), ("DT", 8899), ("DT", 502), ("ES", 8899)):
        for sh in range(shards if fam == "ET" else max(1, shards // 2)):
            specs.append({"mode": "direct", "family": fam, "port": port, "shard": sh,
                          "shards": shards if fam == "ET" else max(1, shards // 2),
                          "n_rand": 2048 if tier == "quick" else 512, "full16": tier != "quick",
                          "seed": f"{seed}:C12:{fam}:{port}:{sh}"})
    for i in range(2 if tier == "quick" else 8):
        specs.append({"mode": "e2e", "seed": f"{seed}:C12:e2e:{i}", "n": 60 if tier == "quick" else 600})
    specs.append({"mode": "dtpair", "seed": f"{seed}:C12:dtpair", "n": 20 if tier == "quick" else 200})
    specs.append({"mode": "schedule", "seed": f"{seed}:C12:schedule", "n": 6000 if tier == "quick" else 200000})
    for i in range(1 if tier == "quick" else 8):
        specs.append({"mode": "reread", "seed": f"{seed}:C12:reread:{i}", "n": 25 if tier == "quick" else 400})
    return specs


def run_shard(spec):
    part = Part()
    if spec["mode"] == "direct":
        direct(spec, part)
    elif spec["mode"] == "dtpair":
        dt_pair(spec, part)
    elif spec["mode"] == "schedule":
        schedule_groups(spec, part)
    elif spec["mode"] == "reread":
        reread_part(spec, part)
    else:
        end_to_end(spec, part)
    return part


def replay(case):
    g = env.goodwe()
    part = Part()
    if case.get("reread"):
        reread_part({"seed": case["seed"], "n": 400}, part)
        return [{"key": v["key"], "msg": v["msg"]} for v in part.violations]
    if case.get("schedule"):
        schedule_groups({"seed": "replay", "n": 3000}, part)
        return [{"key": v["key"], "msg": v["msg"]} for v in part.violations]
    if case.get("dtpair"):
        dt_pair({"seed": case["seed"], "n": case["i"] + 1}, part)
    elif case.get("e2e"):
        end_to_end({"seed": case["seed"], "n": case["i"] + 1}, part)
    else:
        rl = rs.ReadLog(g)
        rnd = random.Random(1)
        fam, port = case["family"], case.get("port", 8899)
        cands = []
        for b in blocks.family_blocks(g, fam, port):
            for sn in b["sensors"]:
                if sn.id_ == case["sensor"] and (b["name"] == case["block"] or case["block"].endswith("+shift") or case["block"].startswith("setting")):
                    cands.append((b, sn))
        for tname, table in blocks.settings_tables(g, fam).items():
            for sn in table:
                if sn.id_ == case["sensor"] and case["block"].startswith("setting"):
                    span = rs.own_span(sn)
                    regs = (span + 1) // 2
                    P = g.protocol
                    cmd = (P.ModbusTcpReadCommand if port == 502 else P.ModbusRtuReadCommand)(0xF7, sn.offset, regs)
                    cands = [({"name": "setting:" + tname, "cmd": cmd, "sensors": (sn,), "framing": case["framing"],
                               "family": fam, "first": sn.offset, "count": regs, "nbytes": 2 * regs}, sn)]
        for b, sn in cands[:1]:
            for _ in range(8):
                check_sensor(g, part, rl, rnd, b, sn, bytes.fromhex(case["own"]))
    return [{"key": v["key"], "msg": v["msg"]} for v in part.violations]
