"""C01  Only validated response frames are ever delivered as results (exploration, contracts + reference acceptor)."""
from __future__ import annotations

import random

from .. import contracts, engine, env
from .. import refcodec as rc
from ..peers import ScriptedPeer
from ..runner import Part

PROPERTY = "C01"
LEVEL = "exploration"
RULE = ("for each command (read counts, write values, write-multi payloads, AA55 commands) x registers x comm addresses: a "
        "reference-encoded valid answer and from it every truncation, every single-bit flip, havoc mutations, splices with "
        "the valid answer to another command, trailing bytes, self-consistent frames of a wrong payload length, Modbus/TCP truncations with a rewritten MBAP length, write echoes of another register / value / count, exception frames with known and unknown codes, AA55 acknowledge frames of other commands, and pure garbage of length 0..300 are fed to the real validator "
        "(reached through the command object); an icontract postcondition on the real validate_* functions compares every "
        "acceptance with an independent acceptor written from the property text; a wrapper asserts the documented outcomes "
        "only; a transport-level part serves mutated frames through the real protocol objects; distinct = distinct "
        "(framing, command kind, mutation class, verdict) tuples x frame length bucket")
ASSUMPTIONS = [
    "the acceptor demands exactly what the property lists (function code, 2 x count payload bytes, announced length, echo "
    "of register and value, CRC-16 / additive checksum); it does not demand comm address, AA55 header bytes or a "
    "Modbus/TCP transaction id",
    "contracts are attached by patching goodwe.modbus.* and goodwe.protocol.* (both names) and the AA55 staticmethod",
]
MUST = ["stale_duplicate_histories", "leftover_fragment_histories", "contract_eval_validate_modbus_rtu_response", "contract_eval_validate_modbus_tcp_response",
        "contract_eval_validate_aa55_response", "verdict_true", "verdict_false", "verdict_partial", "verdict_rejected",
        "transport_level_results", "malformed_answer_in_two_pieces", "exception_frames_through_transport", "concurrent_transport_cases", "accepted_rtu_read", "accepted_rtu_write", "accepted_rtu_multi", "accepted_tcp_read",
        "accepted_tcp_write", "accepted_tcp_multi", "accepted_aa55"]
EXHAUSTIVE = {"quick": False, "thorough": False}


def make_command(g, d):
    p = g.protocol
    f, k = d["framing"], d["kind"]
    if f == "rtu":
        if k == "read":
            return p.ModbusRtuReadCommand(d["comm"], d["reg"], d["count"])
        if k == "write":
            return p.ModbusRtuWriteCommand(d["comm"], d["reg"], d["value"])
        return p.ModbusRtuWriteMultiCommand(d["comm"], d["reg"], d["data"])
    if f == "tcp":
        if k == "read":
            return p.ModbusTcpReadCommand(d["comm"], d["reg"], d["count"])
        if k == "write":
            return p.ModbusTcpWriteCommand(d["comm"], d["reg"], d["value"])
        return p.ModbusTcpWriteMultiCommand(d["comm"], d["reg"], d["data"])
    if k == "aa55read":
        return p.Aa55ReadCommand(d["reg"], d["count"])
    if k == "aa55write":
        return p.Aa55WriteCommand(d["reg"], d["value"])
    if k == "aa55multi":
        return p.Aa55WriteMultiCommand(d["reg"], d["data"])
    return p.Aa55ProtocolCommand(d["cmdhex"], d["rtype"])


def gen_commands(rnd, n_per):
    """Command descriptors (independent of the library) with boundary + random arguments."""
    out = []
    regs = [0, 1, 255, 256, 0x7FFF, 0x8000, 0xFFFF, 35100, 47510]
    for framing in ("rtu", "tcp"):
        counts = [1, 2, 3, 62, 124, 125] + [rnd.randrange(1, 126) for _ in range(n_per)]
        for c in counts:
            out.append({"framing": framing, "kind": "read", "comm": rnd.choice((0xF7, 0x7F, 0, 255, rnd.randrange(256))),
                        "reg": rnd.choice(regs + [rnd.randrange(65536)]), "count": c})
        for v in [0, 1, -1, 32767, -32768, 255, 256, -256, 2, 5, 62, 125] + [rnd.randrange(-32768, 32768) for _ in range(n_per)]:
            out.append({"framing": framing, "kind": "write", "comm": rnd.choice((0xF7, 0x7F, rnd.randrange(256))),
                        "reg": rnd.choice(regs + [rnd.randrange(65536)]), "value": v})
        for nb in [2, 4, 8, 12, 246] + [2 * rnd.randrange(1, 124) for _ in range(max(2, n_per // 2))]:
            data = bytes(rnd.randrange(256) for _ in range(nb))
            out.append({"framing": framing, "kind": "multi", "comm": 0xF7, "reg": rnd.choice(regs + [rnd.randrange(65536)]),
                        "data": data, "count": nb // 2})
    for cmdhex, rtype in (("010200", "0182"), ("010600", "0186"), ("010900", "0189")):
        out.append({"framing": "aa55", "kind": "raw", "cmdhex": cmdhex, "rtype": rtype})
        for plen in (200, 254, 255):
            out.append({"framing": "aa55", "kind": "raw", "cmdhex": cmdhex, "rtype": rtype, "plen": plen, "pcls": "ff"})
    out.append({"framing": "aa55", "kind": "aa55read", "reg": 0x500, "count": 127, "rtype": "019A"})
    for _ in range(max(3, n_per // 2)):
        out.append({"framing": "aa55", "kind": "aa55read", "reg": rnd.randrange(65536), "count": rnd.randrange(1, 126), "rtype": "019A"})
        out.append({"framing": "aa55", "kind": "aa55write", "reg": rnd.randrange(65536), "value": rnd.randrange(0, 65536), "rtype": "02B9"})
        out.append({"framing": "aa55", "kind": "aa55multi", "reg": rnd.randrange(65536),
                    "data": bytes(rnd.randrange(256) for _ in range(8 * rnd.randrange(1, 4))), "rtype": "02B9"})
    return out


def payload_bytes(rnd, n, cls=None):
    cls = cls or rnd.choice(("random", "random", "ff", "00", "7f80", "fe", "aa55"))
    if cls == "aa55":           # the frame-header byte pair inside the payload
        b = bytearray(rnd.randrange(256) for _ in range(n))
        for _ in range(1 + n // 16):
            if n >= 2:
                k = rnd.randrange(n - 1)
                b[k:k + 2] = b"\xaa\x55"
        if n >= 2 and rnd.random() < 0.3:
            b = bytearray(b"\xaa\x55" * (n // 2 + 1))[:n]
        return bytes(b)
    if cls == "ff":
        return b"\xff" * n
    if cls == "00":
        return b"\x00" * n
    if cls == "fe":
        return bytes(rnd.choice((0xFF, 0xFE)) for _ in range(n))
    if cls == "7f80":
        return bytes(rnd.choice((0x7F, 0x80)) for _ in range(n))
    return bytes(rnd.randrange(256) for _ in range(n))


def valid_answer(d, rnd):
    f = d["framing"]
    if f == "aa55":
        if d["kind"] == "aa55read":
            pl = payload_bytes(rnd, 2 * d["count"])
        elif d["kind"] == "raw":
            pl = payload_bytes(rnd, d.get("plen", rnd.choice((0, 1, 64, 86, 142, 254, 255))), d.get("pcls"))
        else:
            pl = b"\x06"
        return rc.aa55_response(d["rtype"], pl)
    pl = payload_bytes(rnd, 2 * d["count"]) if d["kind"] == "read" else None
    return rc.rtu_response(d, pl) if f == "rtu" else rc.tcp_response(d, pl, txid=rnd.randrange(1, 65535))


def acceptor_desc(d):
    if d["framing"] == "aa55":
        return {"framing": "aa55", "rtype": d["rtype"]}
    return d


def mutations(base, other, rnd, n_havoc, cmd_desc=None):
    """(class, bytes) pairs derived from a valid frame."""
    yield "valid", base
    for k in range(len(base)):
        yield "truncation", base[:k]
    for i in range(len(base) * 8):
        b = bytearray(base)
        b[i // 8] ^= 1 << (i % 8)
        yield "bitflip", bytes(b)
    for t in (b"\x00", b"\xff\xff", base[-2:], base):
        yield "trailing", base + t
    if cmd_desc is not None and cmd_desc["framing"] in ("rtu", "aa55") and len(base) > 4 and base[-1] != base[-2]:
        yield "checksum-bytes-swapped", base[:-2] + base[-1:] + base[-2:-1]
    for _ in range(n_havoc):
        b = bytearray(base)
        op = rnd.randrange(5)
        if op == 0 and b:
            p = rnd.randrange(len(b))
            b[p:p] = bytes(rnd.randrange(256) for _ in range(rnd.randrange(1, 4)))
        elif op == 1 and b:
            p = rnd.randrange(len(b))
            del b[p:p + rnd.randrange(1, 4)]
        elif op == 2 and b:
            for _ in range(rnd.randrange(1, 4)):
                b[rnd.randrange(len(b))] = rnd.randrange(256)
        elif op == 3 and b:
            p = rnd.randrange(len(b))
            b[p:p] = b[p:p + rnd.randrange(1, 6)]
        else:
            cut = rnd.randrange(0, min(len(b), len(other)) + 1)
            b = bytearray(base[:cut] + other[cut:])
        yield "havoc", bytes(b)
    yield "foreign", other
    # self-consistent frames of the WRONG payload length (own byte count, own correct checksum)
    if cmd_desc is not None and cmd_desc.get("kind") == "read" and cmd_desc["framing"] in ("rtu", "tcp"):
        c = cmd_desc["count"]
        for L in sorted({max(0, 2 * c - 2), max(0, 2 * c - 1), 2 * c + 1, 2 * c + 2, rnd.randrange(0, 251), 1, 0}):
            if L == 2 * c or L > 250:
                continue
            pl = bytes(rnd.randrange(256) for _ in range(L))
            if cmd_desc["framing"] == "rtu":
                body = bytes([cmd_desc["comm"], 3, L]) + pl
                crc = rc.crc16(body)
                yield "wrong-length-consistent", b"\xaa\x55" + body + bytes([crc & 0xFF, crc >> 8])
            else:
                pdu = bytes([cmd_desc["comm"], 3, L]) + pl
                yield "wrong-length-consistent", b"\x00\x07\x00\x00" + len(pdu).to_bytes(2, "big") + pdu
    # Modbus/TCP: truncations whose MBAP length field was rewritten to match (or undercut) what is actually there - as a re-framing
    # gateway would produce; and complete frames with an arbitrary MBAP length (the field is ignored on purpose)
    if cmd_desc is not None and cmd_desc["framing"] == "tcp":
        for k in sorted({9, 10, len(base) - 1, len(base) - 2, rnd.randrange(9, max(10, len(base)))}):
            if 9 <= k < len(base):
                for ml in sorted({k - 6, max(0, k - 7), 3, 0}):
                    yield "truncation-mbap-rewritten", base[:4] + ml.to_bytes(2, "big") + base[6:k]
        for ml in (0, 3, 6, len(base) - 7, len(base) - 5, 0xFFFF):
            yield "valid-any-mbap-length", base[:4] + ml.to_bytes(2, "big") + base[6:]
    # write / write-multi answers that are well-formed and checksummed but echo ANOTHER register / value / count
    if cmd_desc is not None and cmd_desc.get("kind") in ("write", "multi") and cmd_desc["framing"] in ("rtu", "tcp"):
        reg = cmd_desc["reg"]
        second = cmd_desc["value"] if cmd_desc["kind"] == "write" else cmd_desc["count"]
        for r2, v2 in ((reg ^ 1, second), ((reg + 1) & 0xFFFF, second), (0 if reg else 5, second), (reg, second + 1), (reg, 5 if second != 5 else 6),
                       (reg, 0 if second else 1), (reg, -second if second not in (0, -32768) else 7), (rnd.randrange(65536), rnd.randrange(1, 100)),
                       # the neighbours across the ends of the 16-bit range (32767 <-> -32768, -1 <-> 0) and the same bits with the other sign
                       (reg, (second + 1 + 32768) % 65536 - 32768), (reg, (second - 1 + 32768) % 65536 - 32768), (reg, (second + 65536) % 65536 - 32768 if second >= 0 else second + 32768)):
            if (r2, v2) == (reg, second) or not -32768 <= v2 <= 32767:
                continue
            d2 = dict(cmd_desc, reg=r2)
            if cmd_desc["kind"] == "write":
                d2["value"] = v2
            else:
                if not 1 <= v2 <= 123:
                    continue
                d2["count"], d2["data"] = v2, bytes(2 * v2)
            yield "echo-of-another-write", (rc.rtu_response(d2, None) if cmd_desc["framing"] == "rtu" else rc.tcp_response(d2, None, txid=7))
    # a well-formed answer of ANOTHER function whose echoed fields coincide with the request's arguments
    if cmd_desc is not None and cmd_desc["framing"] in ("rtu", "tcp"):
        k_, reg_ = cmd_desc["kind"], cmd_desc["reg"]
        mk = (lambda d_, pl=None: rc.rtu_response(d_, pl)) if cmd_desc["framing"] == "rtu" else (lambda d_, pl=None: rc.tcp_response(d_, pl, txid=9))
        base_ = {"framing": cmd_desc["framing"], "comm": cmd_desc["comm"], "reg": reg_}
        if k_ == "multi":
            yield "cross-kind-coincidence", mk(dict(base_, kind="write", value=cmd_desc["count"]))
        elif k_ == "write":
            v_ = cmd_desc["value"]
            yield "cross-kind-coincidence", mk(dict(base_, kind="multi", count=v_ & 0x7F or 1, data=bytes(2 * (v_ & 0x7F or 1))))
            if 1 <= v_ <= 125:
                yield "cross-kind-coincidence", mk(dict(base_, kind="read", count=v_), bytes(2 * v_))
            if 1 <= v_ <= 123:
                yield "cross-kind-coincidence", mk(dict(base_, kind="multi", count=v_, data=bytes(2 * v_)))
        else:
            c_ = cmd_desc["count"]
            yield "cross-kind-coincidence", mk(dict(base_, kind="write", value=c_))
            if c_ <= 123:
                yield "cross-kind-coincidence", mk(dict(base_, kind="multi", count=c_, data=bytes(2 * c_)))
    # well-formed exception answers with known and unknown codes (must be refused or reported as rejected - never accepted, and
    # the validator itself must not fail on them)
    if cmd_desc is not None and cmd_desc["framing"] in ("rtu", "tcp"):
        for code in (0, 1, 2, 4, 9, 11, 12, 0x7F, 0x80, 0xFF, rnd.randrange(256)):
            yield "exception-frame", (rc.rtu_exception(cmd_desc, code) if cmd_desc["framing"] == "rtu" else rc.tcp_exception(cmd_desc, code))
    # AA55: the full-length frame under a response type that differs from the expected one in a single bit (e.g. the request's own
    # type mirrored back), checksum recomputed
    if cmd_desc is not None and cmd_desc["framing"] == "aa55" and len(base) >= 9:
        for bit in range(16):
            t = int.from_bytes(base[4:6], "big") ^ (1 << bit)
            body = base[:4] + t.to_bytes(2, "big") + base[6:-2]
            yield "type-one-bit-off", body + rc.aa55_sum(body)
    # write-multi answers echoing a register count that matches in its low byte only
    if cmd_desc is not None and cmd_desc.get("kind") == "multi" and cmd_desc["framing"] in ("rtu", "tcp"):
        for hi in (1, 2, 0x80, 0xFF):
            d2 = dict(cmd_desc, count=cmd_desc["count"] + (hi << 8))
            yield "echo-of-another-write", (rc.rtu_response(d2, None) if cmd_desc["framing"] == "rtu" else rc.tcp_response(d2, None, txid=7))
    # AA55: short acknowledge frames (payload 06 / 15 / empty) carrying the response type of ANOTHER command, checksum correct
    if cmd_desc is not None and cmd_desc["framing"] == "aa55":
        for rt in ("03b6", "02b9", "019a", "0186", "0182", "0189", "03d9", "03b7", "%04x" % rnd.randrange(65536)):
            if rt.lower() == str(cmd_desc.get("rtype", "")).lower():
                continue
            for pl in (b"\x06", b"\x15", b"", b"\x06\x06"):
                yield "foreign-ack", rc.aa55_response(rt, pl)
    for n in (0, 1, 4, 5, 8, 9, 10, 12, rnd.randrange(300), rnd.randrange(300)):
        yield "garbage", bytes(rnd.randrange(256) for _ in range(n))


def verdict(g, cmd, data):
    ex = g.exceptions
    try:
        r = cmd.validator(data)
        return "true" if r is True else ("false" if r is False else f"other:{r!r}")
    except ex.PartialResponseException:
        return "partial"
    except ex.RequestRejectedException:
        return "rejected"
    except Exception as e:      # noqa
        return f"raises:{type(e).__name__}"


def direct_part(spec, part):
    g = env.goodwe()
    rnd = random.Random(spec["seed"])
    cmds = gen_commands(rnd, spec["n_per"])
    rnd.shuffle(cmds)
    for d in cmds:
        if d["framing"] not in spec["framings"]:
            continue
        cmd = make_command(g, d)
        base = valid_answer(d, rnd)
        d2 = dict(d)
        if d["framing"] != "aa55":
            d2["reg"] = (d["reg"] + 1) & 0xFFFF
            if d["kind"] == "read":
                d2 = dict(d2, kind="write", value=7)
            elif d["kind"] == "write":
                d2 = dict(d2, kind="read", count=1)
            else:
                d2 = dict(d2, count=(d["count"] % 120) + 1, data=bytes(2 * ((d["count"] % 120) + 1)))
        else:
            d2 = dict(d, rtype="01FF", kind="raw", cmdhex="01ff00")
        other = valid_answer(d2, rnd)
        ad = acceptor_desc(d)
        for cls, data in mutations(base, other, rnd, spec["havoc"], d):
            v = verdict(g, cmd, data)
            part.evaluations += 1
            part.count("verdict_" + v.split(":")[0])
            part.see(f"{d['framing']}|{d['kind']}|{cls}|{v}|{min(len(data) // 16, 20)}")
            case = {"cmd": {k: (x.hex() if isinstance(x, bytes) else x) for k, x in d.items()}, "class": cls, "data": data.hex()}
            if v == "true":
                why = rc.c01_accept_ok(ad, data)
                if why:
                    part.violate(f"C01/{d['framing']}/accepted-invalid-frame",
                                 f"{d['framing']} {d['kind']} validator accepted a {cls} frame: {why} ({data.hex()[:80]})", case)
                elif cls == "valid":
                    part.count(f"accepted_{d['framing']}_{d['kind']}" if d["framing"] != "aa55" else "accepted_aa55")
            elif v.startswith("raises") or v.startswith("other"):
                part.violate(f"C01/{d['framing']}/validator-{v.replace(':', '/')}",
                             f"{d['framing']} {d['kind']} validator on a {cls} frame: {v} ({data.hex()[:80]})", case)
            if part.evaluations % 40009 == 7:
                part.sample({"command": case["cmd"], "mutation": cls, "frame": data.hex()[:120], "verdict": v})


class RawPeer(ScriptedPeer):
    def __init__(self, sc):
        super().__init__(engine.HOST, sc["framing"], [], sc["T"], after="drop")
        self.sc = sc
        self.frames = [bytes.fromhex(x) for x in sc["frames"]]

    def on_request(self, s, kind, frame, n):
        self.loop.ev("peer", self.owner, n, "raw")
        if n <= len(self.frames):
            fr = self.frames[n - 1]
            cut = self.sc.get("cuts", {}).get(str(n))
            if cut:
                self.send(s, fr[:cut], 0, n, 1)
                self.send(s, fr[cut:], 0.2, n, 2)       # (0.2 s apart: two separate datagrams / segments)
            else:
                self.send(s, fr, 0, n)


def transport_part(spec, part):
    """Mutated frames served through the real protocol objects: whatever execute() returns must be acceptable."""
    rnd = random.Random(spec["seed"])
    for i in range(spec["n"]):
        framing = rnd.choice(("rtu", "tcp", "aa55"))
        if framing == "aa55":
            d = {"framing": "aa55", "kind": "raw", "cmdhex": "010600", "rtype": "0186"}
            step = ["aa55", "010600", "0186"]
        else:
            kind = rnd.choice(("read", "write", "multi"))
            d = {"framing": framing, "kind": kind, "comm": 0xF7, "reg": rnd.randrange(65536)}
            if kind == "read":
                d["count"] = rnd.choice((1, 2, 5, 60, 125))
                step = ["read", d["reg"], d["count"]]
            elif kind == "write":
                d["value"] = rnd.randrange(-32768, 32768)
                step = ["write", d["reg"], d["value"]]
            else:
                d["data"] = bytes(rnd.randrange(256) for _ in range(2 * rnd.randrange(1, 5)))
                d["count"] = len(d["data"]) // 2
                step = ["multi", d["reg"], d["data"].hex()]
        base = valid_answer(d, rnd)
        d2 = dict(d, reg=(d.get("reg", 0) + 3) & 0xFFFF) if framing != "aa55" else dict(d, rtype="0189")
        other = valid_answer(d2, rnd)
        muts = [m for m in mutations(base, other, rnd, 12, d) if m[0] != "valid" and len(m[1]) > 0]
        frames = [rnd.choice(muts)[1] for _ in range(3)]
        cuts = {}
        hdr = 5 if framing == "rtu" else 9
        if rnd.random() < 0.3:      # the VALID answer, delivered in two pieces (what is delivered must still be the whole frame)
            frames[0] = base
            if len(base) > hdr + 1:
                cuts["1"] = rnd.randrange(hdr, len(base))
        elif rnd.random() < 0.5:
            # a MALFORMED answer delivered in two pieces (whatever is reassembled must pass the same checks as a frame that came whole)
            pool = [m[1] for m in muts if m[0] in ("wrong-length-consistent", "foreign", "echo-of-another-write", "bitflip", "havoc") and len(m[1]) > hdr + 1]
            if pool:
                frames[0] = rnd.choice(pool)
                cuts["1"] = rnd.choice((hdr, len(frames[0]) - 1, rnd.randrange(hdr, len(frames[0]))))
                part.count("malformed_answer_in_two_pieces")
        sc = {"transport": "tcp" if framing == "tcp" else "udp", "framing": framing, "keep_alive": rnd.random() < 0.5,
              "T": 1, "R": 2, "frames": [f.hex() for f in frames], "cuts": cuts, "tasks": [{"start": 0.0, "steps": [step]}]}
        run = engine.run_scenario(sc, peer_factory=RawPeer, quiesce=False)
        part.evaluations += 1
        rec = run.calls[0] if run.calls else None
        part.see(f"transport|{framing}|{d['kind']}|{rec['outcome'] if rec else run.stop}")
        if rec and rec["outcome"] == "ok":
            part.count("transport_level_results")
            raw = bytes.fromhex(rec["result"]["raw"])
            why = rc.c01_accept_ok(acceptor_desc(d), raw)
            if why:
                part.violate(f"C01/{framing}/delivered-invalid-result",
                             f"request completed successfully with {raw.hex()[:80]}: {why}",
                             {"transport": True, "scenario": sc, "cmd": {k: (x.hex() if isinstance(x, bytes) else x) for k, x in d.items()}})
        elif rec:
            part.count("transport_level_refusals")
        if run.stop:
            part.violate(f"C01/{framing}/hang-on-mutated-frame", run.stop, {"transport": True, "scenario": sc})
        for le in run.loop_errors:
            part.violate(f"C01/{framing}/callback-exception", f"{le['message']} {le['exception'][:100]}", {"transport": True, "scenario": sc})


def exception_frames_part(part):
    """every exception code 0..12, 0x7F, 0x80, 0xFF answered to read / write / write-multi through the real protocol objects: an
    exception answer is never delivered as the result of the request"""
    for framing in ("rtu", "tcp"):
        for kind in ("read", "write", "multi"):
            d = {"framing": framing, "kind": kind, "comm": 0xF7, "reg": 0x0510 if kind == "multi" else 300}
            if kind == "read":
                d["count"], step = 2, ["read", d["reg"], 2]
            elif kind == "write":
                d["value"], step = 5, ["write", d["reg"], 5]
            else:
                d["data"], d["count"], step = bytes(4), 2, ["multi", d["reg"], "00000000"]
            for code in list(range(0, 13)) + [0x7F, 0x80, 0xFF]:
                for ka in (False, True):
                    fr = rc.rtu_exception(d, code) if framing == "rtu" else rc.tcp_exception(d, code)
                    sc = {"transport": "tcp" if framing == "tcp" else "udp", "framing": framing, "keep_alive": ka, "T": 1, "R": 1,
                          "frames": [fr.hex(), fr.hex()], "cuts": {}, "tasks": [{"start": 0.0, "steps": [step]}]}
                    run = engine.run_scenario(sc, peer_factory=RawPeer, quiesce=False)
                    part.evaluations += 1
                    part.count("exception_frames_through_transport")
                    rec = run.calls[0] if run.calls else None
                    if run.stop:
                        part.violate(f"C01/{framing}/hang-on-mutated-frame", run.stop, {"excframes": True})
                    elif rec and rec["outcome"] == "ok":
                        part.violate(f"C01/{framing}/delivered-invalid-result",
                                     f"{kind} request answered by an exception frame (code {code}): the request completed successfully with "
                                     f"{rec['result'].get('raw', '')[:40]}", {"excframes": True})
                    part.see(f"excframe|{framing}|{kind}|{code}")


def leftover_fragment_part(part):
    """request A receives the head of its answer and then the WHOLE answer again (it completes; the head was never consumed); request B on the
    same object then receives only the tail of its answer - exactly as many bytes as A's head was short of.  Nothing valid was sent for B: it
    must not complete with a frame glued together from the two (on Modbus/TCP there is no checksum that would refuse the glued frame)"""
    for transport, framing in (("tcp", "tcp"), ("udp", "rtu"), ("udp", "aa55")):
        for ka in (True, False):
            for count in (2, 5):
                full = {"tcp": 9 + 2 * count, "rtu": 9 + 2 * count, "aa55": 49}[framing]
                hdr = 5 if framing == "rtu" else 9
                for k in sorted({hdr, hdr + 1, full - 3, full - 1}):
                    for gap in (0.0, 0.3):
                        if framing == "aa55":
                            steps = [["aa55", "010600", "0186"]] + ([["sleep", gap]] if gap else []) + [["aa55", "010600", "0186"]]
                            sc = {"script": [["fragthenfull", k], ["tailonly", k]]}
                        else:
                            steps = [["read", 100, count]] + ([["sleep", gap]] if gap else []) + [["read", 101, count]]
                            sc = {"by_reg": {100: [["fragthenfull", k]], 101: [["tailonly", k]]}}
                        sc.update({"transport": transport, "framing": framing, "keep_alive": ka, "T": 1, "R": 0, "after": "drop",
                                   "tasks": [{"start": 0.0, "steps": steps}]})
                        run = engine.run_scenario(sc, quiesce=False)
                        part.evaluations += 1
                        part.count("leftover_fragment_histories")
                        reads = [c for c in run.calls if c["step"][0] in ("read", "aa55")]
                        part.see(f"leftover|{framing}|{ka}|{k - hdr}|{[c['outcome'] for c in reads]}")
                        if run.stop:
                            part.violate(f"C01/{framing}/hang-on-mutated-frame", run.stop, {"leftover": True})
                        elif len(reads) == 2 and reads[1]["outcome"] == "ok":
                            part.violate(f"C01/{framing}/delivered-invalid-result",
                                         f"keep_alive={ka}: request A got the first {k} bytes of its answer and then the whole answer; request B was sent only the "
                                         f"last {full - k} bytes of its answer, yet it completed with {reads[1]['result'].get('raw', '')[:80]} - a frame nobody sent",
                                         {"leftover": True})


def stale_duplicate_part(part):
    """request A completes with frame F; an exact duplicate of F arrives while request B - another register count, a write, a write-multi -
    is waiting (its own answers are lost): whatever B ends with, it is not F (F is no valid answer to B)"""
    for transport, framing in (("udp", "rtu"), ("tcp", "tcp")):
        for ka in (True, False):
            for stepb, descb in ((["read", 101, 3], {"kind": "read", "reg": 101, "count": 3}),
                                 (["read", 101, 1], {"kind": "read", "reg": 101, "count": 1}),
                                 (["write", 101, 7], {"kind": "write", "reg": 101, "value": 7}),
                                 (["multi", 101, "00010002"], {"kind": "multi", "reg": 101, "count": 2, "data": bytes.fromhex("00010002")})):
                for D in (0.2, 0.6, 1.3):
                    sc = {"transport": transport, "framing": framing, "keep_alive": ka, "T": 1, "R": 1, "after": "drop",
                          "by_reg": {100: [["nowdup", D]], 101: []},
                          "tasks": [{"start": 0.0, "steps": [["read", 100, 2], ["sleep", 0.1], stepb]}]}
                    run = engine.run_scenario(sc, quiesce=False)
                    part.evaluations += 1
                    part.count("stale_duplicate_histories")
                    recb = [c for c in run.calls if c["step"][0] != "sleep"][-1] if run.calls else None
                    part.see(f"staledup|{framing}|{ka}|{stepb[0]}|{D}|{recb['outcome'] if recb else run.stop}")
                    d = dict(descb, framing=framing, comm=0xF7)
                    if run.stop:
                        part.violate(f"C01/{framing}/hang-on-mutated-frame", run.stop, {"staledup": True})
                    elif recb and recb["outcome"] == "ok":
                        raw = bytes.fromhex(recb["result"]["raw"])
                        why = rc.c01_accept_ok(acceptor_desc(d), raw)
                        if why:
                            part.violate(f"C01/{framing}/delivered-invalid-result",
                                         f"keep_alive={ka}: the answer to the previous request (read 100 x2) arrived again {D} s later, while {stepb} was waiting; "
                                         f"{stepb} completed with {raw.hex()[:60]}: {why}", {"staledup": True})


def concurrent_part(spec, part):
    """request A (read cA registers) is in flight when request B (read cB registers) is queued on the same object; the peer answers A's
    transmission with a checksum-correct read answer of B's shape: it must not complete A."""
    rnd = random.Random(spec["seed"])
    for i in range(spec["n"]):
        framing = rnd.choice(("rtu", "tcp"))
        cA, cB = rnd.sample((1, 2, 5, 10, 30, 60), 2)
        dA = {"framing": framing, "kind": "read", "comm": 0xF7, "reg": 2000, "count": cA}
        dB = {"framing": framing, "kind": "read", "comm": 0xF7, "reg": 3000, "count": cB}
        wrong = valid_answer(dict(dB, reg=2000), rnd)           # B-shaped answer
        sc = {"transport": "tcp" if framing == "tcp" else "udp", "framing": framing, "keep_alive": rnd.random() < 0.5, "T": 1, "R": 1,
              "by_reg": {2000: [["raw", wrong, 0.3]], 3000: ["now"]}, "after": "now",
              "tasks": [{"start": 0.0, "steps": [["read", 2000, cA]]}, {"start": rnd.choice((0.0, 0.1, 0.29)), "steps": [["read", 3000, cB]]}]}
        run = engine.run_scenario(sc, quiesce=False)
        part.evaluations += 1
        part.count("concurrent_transport_cases")
        part.see(f"concurrent|{framing}|{cA}|{cB}")
        for rec in run.calls:
            if rec["outcome"] == "ok":
                d = dA if rec["step"][1] == 2000 else dB
                raw = bytes.fromhex(rec["result"]["raw"])
                why = rc.c01_accept_ok(d, raw)
                if why:
                    sc2 = dict(sc, by_reg={"2000": [["raw", wrong.hex(), 0.3]], "3000": ["now"]})
                    part.violate(f"C01/{framing}/delivered-invalid-result",
                                 f"with a second request queued on the same object, the read of {d['count']} registers completed with "
                                 f"{raw.hex()[:60]}: {why}", {"concurrent": True, "seed": spec["seed"], "i": i})


def plan(tier, seed):
    specs = []
    n = 8 if tier == "quick" else 96
    for i in range(n):
        for framings in (["rtu"], ["tcp"], ["aa55"]):
            specs.append({"mode": "direct", "seed": f"{seed}:C01:{i}:{framings[0]}", "framings": framings,
                          "n_per": 6 if tier == "quick" else 40, "havoc": 30 if tier == "quick" else 120})
    for i in range(4 if tier == "quick" else 32):
        specs.append({"mode": "transport", "seed": f"{seed}:C01:T:{i}", "n": 500 if tier == "quick" else 8000})
    specs.append({"mode": "excframes"})
    specs.append({"mode": "concurrent", "seed": f"{seed}:C01:C", "n": 150 if tier == "quick" else 6000})
    return specs


def run_shard(spec):
    part = Part()
    contracts.install_validator_contracts(contracts.Sink(part))
    if spec["mode"] == "direct":
        direct_part(spec, part)
    elif spec["mode"] == "concurrent":
        concurrent_part(spec, part)
    elif spec["mode"] == "excframes":
        exception_frames_part(part)
        leftover_fragment_part(part)
        stale_duplicate_part(part)
    else:
        transport_part(spec, part)
    return part


def replay(case):
    g = env.goodwe()
    part = Part()
    contracts.install_validator_contracts(contracts.Sink(part))
    if case.get("excframes"):
        exception_frames_part(part)
        return [{"key": v["key"], "msg": v["msg"]} for v in part.violations]
    if case.get("concurrent"):
        concurrent_part({"seed": case["seed"], "n": case["i"] + 1}, part)
        return [{"key": v["key"], "msg": v["msg"]} for v in part.violations]
    if case.get("transport"):
        run = engine.run_scenario(case["scenario"], peer_factory=RawPeer, quiesce=False)
        print(run.calls)
        out = []
        for rec in run.calls:
            if rec["outcome"] == "ok":
                d = case.get("cmd")
        return [{"key": v["key"], "msg": v["msg"]} for v in part.violations]
    if "cmd" in case:
        d = {k: (bytes.fromhex(v) if k == "data" else v) for k, v in case["cmd"].items()}
        cmd = make_command(g, d)
        data = bytes.fromhex(case["data"])
        v = verdict(g, cmd, data)
        print("verdict:", v, "acceptor:", rc.c01_accept_ok(acceptor_desc(d), data))
        if (v == "true" and rc.c01_accept_ok(acceptor_desc(d), data)) or v.startswith("raises") or v.startswith("other"):
            return [{"key": "C01/reproduced", "msg": f"{v} on {data.hex()[:80]}"}]
        return []
    # contract-level witness: call the real function again
    data = bytes.fromhex(case["data"])
    if case["framing"] == "aa55":
        try:
            g.protocol.Aa55ProtocolCommand._validate_aa55_response(data, case["rtype"])
        except Exception:
            pass
    else:
        fn = g.modbus.validate_modbus_rtu_response if case["framing"] == "rtu" else g.modbus.validate_modbus_tcp_response
        try:
            fn(data, case["cmd"], case["offset"], case["value"])
        except Exception:
            pass
    return [{"key": v["key"], "msg": v["msg"]} for v in part.violations]
