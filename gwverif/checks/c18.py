"""C18  Reading never writes, and invalid setter arguments never reach the inverter (exploration)."""
from __future__ import annotations

import random

from .. import configs, engine, env, models
from ..runner import Part

PROPERTY = "C18"
LEVEL = "exploration"
RULE = ("(read-only) for families x configuration classes (tags x rated power x refused-block subsets x battery) x transports: a "
        "phase of VALID setter calls is followed by every monitoring call (connect/discover, read_device_info, read_runtime_data x2, "
        "read_sensor of listed ids, read_setting of every setting, read_settings_data, get_grid_export_limit, get_operation_modes, "
        "get_operation_mode, get_ongrid_battery_dod, raw ids beyond 16 bits; over Modbus/TCP also with keep-alive off and randomly refused connection attempts); every frame the simulated inverter decodes during the monitoring phase must "
        "be read-class (Modbus fc 03, AA55 01xx); (invalid arguments) every integer in [-300, 300] and samples up to +-70000 for "
        "export limit, DoD, eco power and eco SoC outside their valid intervals, random unknown setting ids and ids of runtime sensors used as setting ids: zero write-class "
        "frames (fc 06/16, AA55 02xx/03xx), ValueError where documented; settings of newer firmware on an inverter whose probes were rejected; "
        "a setter with lost datagrams running concurrently with monitoring calls must cause exactly lost+1 write frames; distinct = distinct (family, configuration, call) and "
        "(setter, argument) tuples")
ASSUMPTIONS = ["frames are classified by an independent decoder inside the simulated inverter",
               "'modbus-N' ids are documented raw-register access and are not 'unknown' ids"]
MUST = ["invalid_after_state_changing_calls", "valid_setter_with_concurrent_invalid_calls", "invalid_after_same_mode", "concurrent_writer_reader", "readonly_calls", "readonly_frames_seen", "after_valid_setters", "invalid_export_limit", "invalid_dod", "invalid_eco_power",
        "invalid_eco_soc", "setting_refused_on_read_then_written", "raw_ids_beyond_16_bits", "unknown_setting_ids", "sensor_id_as_setting_id", "monitoring_over_refused_connections", "discover_readonly", "valueerror_seen"]
EXHAUSTIVE = {"quick": False, "thorough": False}


def write_frames(sim, n_log0, n_aa0, n_bad0=0):
    w = [(r[2]["kind"], r[2]["reg"]) for r in sim.log[n_log0:] if r[2]["kind"] != "read"]
    for b in sim.bad[n_bad0:]:          # frames the simulator could not parse but whose function code is a write
        fr = b[2]
        if len(fr) > 7 and (fr[1] in (6, 16) or (fr[2:4] == b"\x00\x00" and fr[7] in (6, 16))):
            w.append(("malformed-write", fr.hex()[:40]))
    if hasattr(sim, "aa55_log"):
        w += [("aa55:" + c, pl.hex()) for _, _, c, pl in sim.aa55_log[n_aa0:] if not c.startswith("01")]
    return w


def marks(sim):
    return len(sim.log), len(getattr(sim, "aa55_log", [])), len(sim.bad)


def readonly_case(cfg, port, seed, part):
    g = env.goodwe()
    rnd = random.Random(seed)
    fam = cfg["family"]
    sim = configs.make_sim(cfg, rnd=rnd, style="mixed")
    if fam == "ET":
        for lo, hi in ((45127, 45134), (45246, 45288), (45350, 45358), (47000, 47010), (47120, 47120), (47500, 47530)):
            for a in range(lo, hi + 1):
                sim.regs[a] = rnd.choice((0, 1, 2, 3, 50))
        sim.set_bytes(45200, bytes([24, 5, 17, 12, 30, 15]))
    OM = g.OperationMode
    tag = f"{fam} {cfg['tag']} rated={cfg['rated']} refused={cfg['refused']} battery={cfg['battery']} port={port}"
    case = {"ro": True, "config": cfg, "port": port, "seed": seed}
    bad = []

    async def guarded(name, coro, m0):
        try:
            await coro
        except (g.InverterError, ValueError):
            pass
        except Exception as e:      # noqa  (other exception types are C09's business)
            pass
        part.count("readonly_calls")
        w = write_frames(sim, *m0)
        if w:
            bad.append((name, w[:3]))

    async def flow(loop):
        via = rnd.choice(("connect", "discover", "direct"))
        if via == "connect":
            inv = await g.connect("inv0", port, family=fam, timeout=1, retries=0)
        elif via == "discover" and port == 8899:
            m0 = marks(sim)
            inv = await g.discover("inv0", port, 1, 0)
            part.count("discover_readonly")
            w = write_frames(sim, *m0)
            if w:
                bad.append(("discover", w[:3]))
        else:
            inv = models.family_cls(g, fam)("inv0", port, 0, 1, rnd.choice((0, 1, 2)) if port == 502 else 0)
            await inv.read_device_info()
        # phase 1: valid setters (so that caches / shared state of the object are primed by writes)
        setters = [("set_grid_export_limit", 1), ("write_setting", "grid_export_limit", 1)]
        if fam != "DT":
            setters += [("set_ongrid_battery_dod", 99), ("set_operation_mode", OM.OFF_GRID), ("set_operation_mode", OM.ECO_CHARGE, 1, 1),
                        ("set_operation_mode", OM.GENERAL), ("write_setting", "eco_mode_2_switch", 1)]
        if fam == "ET":
            setters += [("write_setting", "work_mode", 1), ("write_setting", "battery_discharge_depth", 1), ("write_setting", "modbus-47000", 1)]
        rnd.shuffle(setters)
        for s_ in setters[:rnd.randrange(2, len(setters) + 1)]:
            try:
                await getattr(inv, s_[0])(*s_[1:])
            except (g.InverterError, ValueError, TypeError):
                pass
        part.count("after_valid_setters")
        # phase 2: monitoring calls only
        if port == 502 and rnd.random() < 0.6:
            # ... over a flaky network: every request needs a new connection and some connection attempts are refused
            inv.set_keep_alive(False)
            await inv._protocol.close()
            loop.connect_scripts["inv0"] = [rnd.choice(("ok", "refused", "ok", "unreach")) for _ in range(2000)]
            part.count("monitoring_over_refused_connections")
        m_start = marks(sim)
        await guarded("read_device_info", inv.read_device_info(), marks(sim))
        await guarded("read_runtime_data", inv.read_runtime_data(), marks(sim))
        await guarded("read_runtime_data#2", inv.read_runtime_data(), marks(sim))
        ids = [s.id_ for s in inv.sensors()]
        rnd.shuffle(ids)
        for sid in ids[:10]:
            await guarded(f"read_sensor({sid})", inv.read_sensor(sid), marks(sim))
        for st in inv.settings():
            await guarded(f"read_setting({st.id_})", inv.read_setting(st.id_), marks(sim))
        await guarded("read_settings_data", inv.read_settings_data(), marks(sim))
        await guarded("get_grid_export_limit", inv.get_grid_export_limit(), marks(sim))
        await guarded("get_operation_modes", inv.get_operation_modes(True), marks(sim))
        await guarded("get_operation_mode", inv.get_operation_mode(), marks(sim))
        await guarded("get_ongrid_battery_dod", inv.get_ongrid_battery_dod(), marks(sim))
        await guarded("read_setting(modbus-47000)", inv.read_setting("modbus-47000"), marks(sim))
        if fam != "ES":
            await guarded("read_sensor(modbus-35100)", inv.read_sensor("modbus-35100"), marks(sim))
            # raw register ids that do not fit into 16 bits (whatever is transmitted for them must still be a read)
            for big in (65536 + 47000, 0x30000 + 47000, 0xD0000 + 47510, 0x100000, rnd.randrange(65536, 1 << 24)):
                await guarded(f"read_sensor(modbus-{big})", inv.read_sensor(f"modbus-{big}"), marks(sim))
                await guarded(f"read_setting(modbus-{big})", inv.read_setting(f"modbus-{big}"), marks(sim))
            part.count("raw_ids_beyond_16_bits")
        n_frames = (len(sim.log) - m_start[0]) + (len(getattr(sim, "aa55_log", [])) - m_start[1])
        part.count("readonly_frames_seen", n_frames)

    run = engine.run_custom({("inv0", port): sim}, flow, vtime_cap=20000, tx_cap=50000)
    part.evaluations += 1
    if run.stop or (run.error is not None and not isinstance(run.error, g.InverterError)):
        part.violate(f"C18/{fam}/run-failed", f"{tag}: {run.stop or repr(run.error)[:160]}", case)
    for name, w in bad:
        call = name.split("(")[0]
        part.violate(f"C18/{fam}/read-call-wrote/{call}", f"{tag}: monitoring call {name} transmitted write-class frames {w}", case)
    part.see(f"ro|{fam}|{cfg['tag']}|{cfg['rated']}|{tuple(cfg['refused'])}|{cfg['battery']}|{port}")
    if part.evaluations % 29 == 1:
        part.sample({"mode": "read-only", "config": cfg, "port": port, "monitoring_calls": part.counters.get("readonly_calls"),
                     "frames_in_monitoring_phase": part.counters.get("readonly_frames_seen")})


def et_variant_sim(variant):
    """'ETU' = current firmware; 'ETU/v1' = older firmware that refuses the eco-mode v2 and peak-shaving registers (the object falls back to the 8-byte groups);
    'ETU/nopeak' = eco-mode v2 without peak shaving"""
    tag, _, fwv = variant.partition("/")
    return models.et_sim(tag=tag, rnd=None, refused_blocks={"v1": ["eco_v2", "peak_shaving"], "nopeak": ["peak_shaving"]}.get(fwv, []))


def invalid_case(fam, port, variant, seed, part, wide):
    g = env.goodwe()
    rnd = random.Random(seed)
    OM = g.OperationMode
    if fam == "ET":
        sim = et_variant_sim(variant)
    elif fam == "DT":
        sim = models.dt_sim(tag=variant)
    else:
        sim = models.es_sim(fw=variant.encode())
    tag = f"{fam} {variant} port={port}"
    args = list(range(-300, 301)) + [65536, 65536 + 50, 65636, -65436, -65536 + 100, 2 ** 32 + 50, 131072 + 7] + ([-70000, -65536, -32769, -32768, -1000, 1000, 32767, 32768, 65535, 65536, 70000] if wide else [-70000, -32768, 70000]) + \
        [rnd.randrange(-70000, 70001) for _ in range(30 if wide else 6)]
    # ... and the integer constants of the source under test beyond that range (a bound check can only go wrong at its constant)
    hv_ = [v for v in env.harvest_ints() if abs(v) > 300]
    args += hv_ if wide else rnd.sample(hv_, min(60, len(hv_)))

    async def flow(loop):
        inv = models.family_cls(g, fam)("inv0", port, 0, 1, 0)
        await inv.read_device_info()

        async def probe(label, counter, coro_fn, expect_valueerror):
            m0 = marks(sim)
            err = None
            try:
                await coro_fn()
            except ValueError as e:
                err = e
                part.count("valueerror_seen")
            except g.InverterError as e:
                err = e
            except Exception as e:      # noqa
                err = e
            part.evaluations += 1
            part.count(counter)
            w = write_frames(sim, *m0)
            case = {"inv": True, "family": fam, "port": port, "variant": variant, "call": label}
            if w:
                part.violate(f"C18/{fam}/invalid-argument-written/{counter}", f"{tag}: {label} transmitted write-class frames {w[:3]}", case)
            if expect_valueerror and not isinstance(err, ValueError):
                part.violate(f"C18/{fam}/no-valueerror/{counter}", f"{tag}: {label} ended with {err!r} instead of ValueError", case)
            part.see(f"inv|{fam}|{counter}|{label.split('(')[0]}|{'neg' if '-' in label else 'pos'}")

        for x in args:
            if x < 0:
                await probe(f"set_grid_export_limit({x})", "invalid_export_limit", lambda: inv.set_grid_export_limit(x), False)
            if fam != "DT":
                if not 0 <= x <= 100:
                    await probe(f"set_ongrid_battery_dod({x})", "invalid_dod", lambda: inv.set_ongrid_battery_dod(x), False)
                    for mode in (OM.ECO_CHARGE, OM.ECO_DISCHARGE):
                        await probe(f"set_operation_mode({mode.name}, power={x}, soc=50)", "invalid_eco_power",
                                    lambda: inv.set_operation_mode(mode, x, 50), True)
                        await probe(f"set_operation_mode({mode.name}, power=50, soc={x})", "invalid_eco_soc",
                                    lambda: inv.set_operation_mode(mode, 50, x), True)
        if fam != "DT":
            # the SAME emulated mode again, right after it was applied successfully, now with an argument out of range (an application
            # re-applying a mode with a mistyped value): still ValueError and nothing written
            for mode in (OM.ECO_CHARGE, OM.ECO_DISCHARGE):
                for x in (-1, -40, 101, 300, -100):
                    try:
                        await inv.set_operation_mode(mode, 30, 60)
                    except Exception:       # noqa  (a model that does not offer the mode: nothing to repeat)
                        break
                    await probe(f"set_operation_mode({mode.name}, power={x}, soc=50) right after a successful {mode.name}", "invalid_after_same_mode",
                                lambda: inv.set_operation_mode(mode, x, 50), True)
                    try:
                        await inv.set_operation_mode(mode, 30, 60)
                    except Exception:       # noqa
                        break
                    await probe(f"set_operation_mode({mode.name}, power=50, soc={x}) right after a successful {mode.name}", "invalid_after_same_mode",
                                lambda: inv.set_operation_mode(mode, 50, x), True)
        if fam != "DT":
            # ... and invalid eco arguments right after calls that may leave a note in the object: the inverter is found in (or put into)
            # OFF_GRID / BACKUP / PEAK_SHAVING, the mode is read back, the eco groups were polled
            for prior in ("found_off_grid", "set_off_grid", "set_backup", "read_groups", "set_general"):
                for mode, x, soc in ((OM.ECO_CHARGE, 101, 100), (OM.ECO_DISCHARGE, -1, 50), (OM.ECO_CHARGE, 50, 101)):
                    try:
                        if prior == "found_off_grid":
                            if fam == "ET":
                                sim.regs[47000] = 1
                            else:
                                sim.settings[66:68] = (1).to_bytes(2, "big")
                            await inv.get_operation_mode()
                        elif prior == "set_off_grid":
                            await inv.set_operation_mode(OM.OFF_GRID)
                        elif prior == "set_backup":
                            await inv.set_operation_mode(OM.BACKUP)
                        elif prior == "set_general":
                            await inv.set_operation_mode(OM.GENERAL)
                        else:
                            await inv.read_setting("eco_mode_1")
                            await inv.read_setting("eco_mode_2")
                    except (ValueError, g.InverterError):
                        pass
                    await probe(f"set_operation_mode({mode.name}, power={x}, soc={soc}) after {prior}", "invalid_after_state_changing_calls",
                                lambda: inv.set_operation_mode(mode, x, soc), True)
        for _ in range(40 if wide else 12):
            sid = rnd.choice(("", "x", "nosuch", "eco_mode_9", "grid_export_limit ", "GRID_EXPORT_LIMIT", "work-mode", "mod", "time2",
                              "80", "47000", "dod_80", "bus_2", "sub-47510", "m47000", "_1", "-5", "mod-47000", "dbus-45356", "s_45356",
                              rnd.choice("modbus_-") * rnd.randrange(1, 4) + str(rnd.randrange(0, 65536)),
                              "".join(rnd.choice("abcdefghijklmnopqrstuvwxyz_") for _ in range(rnd.randrange(1, 12)))))
            if sid.startswith("modbus") or sid in {s.id_ for s in inv.settings()} or (fam == "ES" and sid == "time"):
                continue
            await probe(f"write_setting({sid!r}, 1)", "unknown_setting_ids", lambda: inv.write_setting(sid, 1), True)
            await probe(f"read_setting({sid!r})", "unknown_setting_ids", lambda: inv.read_setting(sid), True)
        # a setting whose register the inverter refuses to READ (ILLEGAL DATA ADDRESS) becomes an unknown id: writing it afterwards
        # must raise ValueError and transmit nothing
        if fam != "ES":
            for st_ in [x for x in inv.settings() if x.id_ in ("grid_export_limit", "battery_discharge_depth", "work_mode", "shadow_scan")][:3]:
                sim.refused.append((st_.offset, st_.offset + max(1, (st_.size_ + 1) // 2) - 1))
                try:
                    await inv.read_setting(st_.id_)
                    became_unknown = False
                except ValueError:
                    became_unknown = True
                except Exception:       # noqa
                    became_unknown = False
                sim.refused.pop()
                if became_unknown:
                    sid = st_.id_
                    await probe(f"write_setting({sid!r}, 1) after its read was refused", "setting_refused_on_read_then_written", lambda: inv.write_setting(sid, 1), True)
                    if sid == "grid_export_limit":
                        await probe("set_grid_export_limit(50) after its read was refused", "setting_refused_on_read_then_written",
                                    lambda: inv.set_grid_export_limit(50), True)
        # ids that a fresh object of this class lists but THIS object's settings() does not (any more): unknown ids here
        if fam == "ET":
            sim.regs[35184] = 0
            try:
                await inv.read_runtime_data()
            except g.InverterError:
                pass
            base_ids = {s.id_ for s in models.family_cls(g, fam)("other", port, 0, 1, 0).settings()}
            gone = sorted(base_ids - {s.id_ for s in inv.settings()})
            for sid in gone[:12]:
                await probe(f"write_setting({sid!r}, 1) - an id settings() no longer lists", "ids_no_longer_listed", lambda: inv.write_setting(sid, 1), True)
            part.count("ids_no_longer_listed", 0)
            sim.regs[35184] = 1
        # ids of runtime sensors are not setting ids
        known = {s.id_ for s in inv.settings()}
        sens = sorted({s.id_ for s in inv.sensors()} - known - ({"time"} if fam == "ES" else set()))
        rnd.shuffle(sens)
        for sid in sens[:(40 if wide else 15)]:
            await probe(f"write_setting({sid!r}, 1)", "sensor_id_as_setting_id", lambda: inv.write_setting(sid, 1), True)
            await probe(f"read_setting({sid!r})", "sensor_id_as_setting_id", lambda: inv.read_setting(sid), True)

    run = engine.run_custom({("inv0", port): sim}, flow, vtime_cap=20000, tx_cap=50000)
    if run.stop or run.error is not None:
        part.violate(f"C18/{fam}/run-failed", f"{tag}: {run.stop or repr(run.error)[:160]}", {"inv": True, "family": fam, "port": port, "variant": variant})
    part.sample({"mode": "invalid arguments", "family": fam, "variant": variant, "port": port, "probes": part.evaluations})


def concurrent_case(fam, port, seed, part):
    """a legitimate setter whose first datagrams are lost runs concurrently with monitoring calls on the same object: the
    simulator must see exactly (lost + 1) write frames - a monitoring call that re-sends the writer's frame shows as a surplus."""
    import asyncio
    g = env.goodwe()
    rnd = random.Random(seed)
    sim = models.family_sim(fam, rnd=random.Random(seed + "s"), style="mixed")
    lost = rnd.choice((1, 1, 2))
    state = {"dropped": 0}
    orig = sim.handle

    def handle(req, kind):
        if req["kind"] != "read" and state["dropped"] < lost:
            state["dropped"] += 1
            return None
        return orig(req, kind)
    sim.handle = handle

    async def flow(loop):
        inv = models.family_cls(g, fam)("inv0", port, 0, 1, 3)
        inv.set_keep_alive(rnd.random() < 0.5)
        await inv.read_device_info()
        m0 = marks(sim)

        async def writer():
            await inv.write_setting("modbus-47510", rnd.randrange(1, 5000))

        async def reader(delay):
            await asyncio.sleep(delay)
            try:
                await inv.read_runtime_data()
            except (g.InverterError, ValueError):
                pass
        await asyncio.gather(writer(), reader(rnd.choice((0.0, 0.01, 0.5))), reader(rnd.choice((0.2, 1.0, 1.01))))
        return len(write_frames(sim, *m0))

    run = engine.run_custom({("inv0", port): sim}, flow, vtime_cap=2000, tx_cap=5000)
    part.evaluations += 1
    part.count("concurrent_writer_reader")
    part.see(f"conc|{fam}|{port}|{lost}")
    if run.stop or run.error is not None:
        part.violate(f"C18/{fam}/run-failed", f"concurrent writer/reader: {run.stop or repr(run.error)[:120]}", {"conc": True, "family": fam, "port": port, "seed": seed})
    elif run.result != lost + 1:
        part.violate(f"C18/{fam}/read-call-wrote/concurrent", f"{fam} port {port}: one write_setting with {lost} lost datagram(s) next to two "
                     f"read_runtime_data() calls: the inverter saw {run.result} write frames, expected {lost + 1}",
                     {"conc": True, "family": fam, "port": port, "seed": seed})


def concurrent_invalid_case(fam, port, variant, seed, part):
    """a valid setter call is under way (the inverter answers slowly) while calls with out-of-range arguments are made on the same object and
    refused: the writes the inverter receives must be exactly those of the valid call made alone - nothing of a refused call may reach it,
    not even through the call that is in flight"""
    import asyncio
    g = env.goodwe()
    OM = g.OperationMode
    rnd = random.Random(seed)
    valid = rnd.choice(([("set_operation_mode", OM.ECO_CHARGE, 20, 50)], [("set_operation_mode", OM.ECO_DISCHARGE, 25, 100)],
                        [("set_ongrid_battery_dod", 30)], [("set_grid_export_limit", 1000)],
                        [("set_operation_mode", OM.ECO_CHARGE, 20, 50), ("set_grid_export_limit", 1000)]))
    invalid = [("set_operation_mode", OM.ECO_CHARGE, -40, 50), ("set_operation_mode", OM.ECO_DISCHARGE, -35, 50), ("set_operation_mode", OM.ECO_CHARGE, 50, 130),
               ("set_operation_mode", OM.ECO_CHARGE, 140, 50), ("set_ongrid_battery_dod", -5), ("set_ongrid_battery_dod", 150), ("set_grid_export_limit", -3)]
    if fam == "DT":
        valid, invalid = [("set_grid_export_limit", 1000)], [("set_grid_export_limit", -3), ("set_grid_export_limit", -70000)]
    offs = [rnd.choice((0.0, 0.05, 0.15, 0.35, 0.55, 0.75, 0.95, 1.3)) for _ in invalid]

    def mksim():
        if fam == "ET":
            return et_variant_sim(variant)
        if fam == "DT":
            return models.dt_sim(tag=variant)
        return models.es_sim(fw=variant.encode())

    def run_one(with_invalid):
        sim = mksim()
        sim.delay = 0.2
        outcomes = []

        async def flow(loop):
            inv = models.family_cls(g, fam)("inv0", port, 0, 1, 0)
            await inv.read_device_info()
            w0 = len(sim.writes)

            async def good():
                for c in valid:
                    await getattr(inv, c[0])(*c[1:])

            async def bad(c, off):
                await asyncio.sleep(off)
                try:
                    await getattr(inv, c[0])(*c[1:])
                    outcomes.append((c, "returned"))
                except ValueError:
                    outcomes.append((c, "ValueError"))
                except Exception as e:      # noqa
                    outcomes.append((c, type(e).__name__))
            await asyncio.gather(good(), *([bad(c, o) for c, o in zip(invalid, offs)] if with_invalid else []))
            return [(w[1], list(w[2])) for w in sim.writes[w0:]]
        run = engine.run_custom({("inv0", port): sim}, flow, vtime_cap=3000, tx_cap=3000)
        return run, outcomes

    solo, _ = run_one(False)
    if solo.stop or solo.error is not None:
        return          # (this model does not offer the valid call: nothing to compare)
    conc, outcomes = run_one(True)
    part.evaluations += 1
    part.count("valid_setter_with_concurrent_invalid_calls")
    part.see(f"concinv|{fam}|{variant}|{port}|{valid[0][0]}|{len(valid)}")
    case = {"concinv": True, "family": fam, "port": port, "variant": variant, "seed": seed}
    what = f"{fam} {variant} port {port}: {[c[0] + str(tuple(str(a) for a in c[1:])) for c in valid]} in flight"
    if conc.stop or conc.error is not None:
        part.violate(f"C18/{fam}/run-failed", f"{what}, refused calls next to it: {conc.stop or repr(conc.error)[:120]}", case)
    elif conc.result != solo.result:
        part.violate(f"C18/{fam}/invalid-argument-written/concurrent",
                     f"{what} while calls with out-of-range arguments are refused (offsets {offs}): the inverter received the writes {conc.result[:6]}, "
                     f"the valid call alone produces {solo.result[:6]}", case)


def other_firmware_ids(fam, port, code, part):
    """settings that exist only on newer firmware must stay unknown when the capability probe was answered with a Modbus exception
    (any code): write_setting -> ValueError, nothing written."""
    g = env.goodwe()
    sim = models.et_sim()
    sim.exc_map = {(3, 47547): code, (3, 47589): code}

    async def flow(loop):
        inv = g.ET("inv0", port, 0, 1, 0)
        await inv.read_device_info()
        out = []
        for sid in ("fast_charging", "fast_charging_soc", "peak_shaving_soc", "eco_mode_enable", "dod_holding", "load_control_mode"):
            m0 = marks(sim)
            try:
                await inv.write_setting(sid, 1)
                err = None
            except ValueError as e:
                err = e
            except Exception as e:      # noqa
                err = e
            out.append((sid, type(err).__name__ if err else None, write_frames(sim, *m0)))
        return out

    run = engine.run_custom({("inv0", port): sim}, flow, vtime_cap=2000)
    for sid, err, w in (run.result or []):
        part.evaluations += 1
        part.count("unknown_setting_ids")
        if w or err != "ValueError":
            part.violate(f"C18/{fam}/invalid-argument-written/unknown_setting_ids" if w else f"C18/{fam}/no-valueerror/unknown_setting_ids",
                         f"ET whose firmware probes were answered with exception {code}: write_setting('{sid}', 1) -> {err}, write frames {w[:2]}",
                         {"fwids": True, "port": port, "code": code})
    part.see(f"fwids|{port}|{code}")


def plan(tier, seed):
    specs = [{"mode": "ro", "shard": i, "shards": 12, "tier": tier, "seed": seed} for i in range(12)]
    for fam, variants in (("ET", ["ETU", "ETT", "EHU", "ETU/v1", "ETT/nopeak"]), ("DT", ["DTU", "DSN"]), ("ES", ["02525", "2225F", "1414E"])):
        for v in variants:
            for port in ((8899, 502) if fam != "ES" else (8899,)):
                specs.append({"mode": "inv", "family": fam, "variant": v, "port": port, "seed": f"{seed}:C18:inv:{fam}:{v}:{port}",
                              "wide": tier != "quick"})
    return specs


def run_shard(spec):
    g = env.goodwe()
    part = Part()
    if spec["mode"] == "inv":
        invalid_case(spec["family"], spec["port"], spec["variant"], spec["seed"], part, spec["wide"])
        if spec["family"] == "ET":
            for code in (2, 4, 6, 1):
                other_firmware_ids("ET", spec["port"], code, part)
        for k in range(12 if not spec["wide"] else 300):
            if spec["family"] != "ES":
                concurrent_case(spec["family"], spec["port"], f"{spec['seed']}:conc:{k}", part)
            concurrent_invalid_case(spec["family"], spec["port"], spec["variant"], f"{spec['seed']}:concinv:{k}", part)
        return part
    tier = spec["tier"]
    rnd = random.Random(f"{spec['seed']}:C18:plan")
    cfgs = [c for c in configs.et_configs(g, "quick") if len(c["refused"]) <= 1 or rnd.random() < (0.04 if tier == "quick" else 0.5)]
    cfgs += list(configs.dt_configs(g, tier)) + list(configs.es_configs(g, tier))
    if tier == "quick":
        cfgs = [c for i, c in enumerate(cfgs) if c["family"] != "ET" or i % 2 == 0]
    for i, cfg in enumerate(cfgs):
        if i % spec["shards"] != spec["shard"]:
            continue
        port = 8899 if cfg["family"] == "ES" else (502 if i % 3 == 0 else 8899)
        readonly_case(cfg, port, f"{spec['seed']}:C18:{i}", part)
    return part


def replay(case):
    part = Part()
    if case.get("concinv"):
        concurrent_invalid_case(case["family"], case["port"], case["variant"], case["seed"], part)
        return [{"key": v["key"], "msg": v["msg"]} for v in part.violations]
    if case.get("conc"):
        concurrent_case(case["family"], case["port"], case["seed"], part)
    elif case.get("fwids"):
        other_firmware_ids("ET", case["port"], case["code"], part)
    elif case.get("ro"):
        readonly_case(case["config"], case["port"], case["seed"], part)
    else:
        invalid_case(case["family"], case["port"], case["variant"], "replay", part, True)
    return [{"key": v["key"], "msg": v["msg"]} for v in part.violations]
