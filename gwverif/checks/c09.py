"""C09  Failures surface only as InverterError, with a correct consecutive-failure count (fault_enumeration)."""
from __future__ import annotations

import errno
import itertools
import random

from .. import engine, env, models, sims
from .. import refcodec as rc
from ..runner import Part

PROPERTY = "C09"
LEVEL = "fault_enumeration"
RULE = ("(A) one or two public requests (read_sensor/write_setting 'modbus-N', send_command) under every fault script of "
        "depth <= retries+1 over the C04 alphabet extended with OS errors on send (ENETUNREACH, EHOSTUNREACH, EACCES, "
        "ECONNREFUSED) and on receive (ECONNREFUSED, ECONNRESET, ENETUNREACH, EHOSTUNREACH; prompt, delayed, and while "
        "idle with keep-alive), TCP connect failures; (B) all success/failure/rejection histories of length <= 5 (quick) "
        "/ 8 (thorough) on one inverter, and the same histories issued by two overlapping tasks (count judged in completion order); (C) every public coroutine of ET/DT/ES x device fault mode (silence, garbage, junk of 0..8 bytes, EOF, OS errors, exception codes 4 / 6, send errors, connect failures); (D) checksum-valid "
        "identification payloads (random, non-ASCII, control characters, short) for ET/DT/ES/discover; distinct = "
        "distinct (part, transport, configuration, outcome sequence) tuples")
ASSUMPTIONS = [
    "a rejection neither resets nor is required to increment the consecutive-failure count: accepted interval "
    "[#failed since last success, #failed + #rejected since last success]",
    "a malformed answer on Modbus/TCP is reported by the library as RequestRejectedException('') by design; only the "
    "family membership is asserted there",
    "ValueError for unknown ids / undecodable values is documented behaviour and not a network failure",
]
MUST = ["requests_across_transaction_id_wrap", "refusals_reported_as_rejected", "answers_cut_off_at_every_length", "requests_after_an_event_loop_change", "failure_count_vs_wire_log", "cfc_checked_through_api", "damaged_frames_not_a_refusal", "os_error_on_send", "os_error_on_receive", "idle_error_keepalive", "tcp_connect_failure", "cfc_checked",
        "cfc_after_rejection", "cfc_checked_overlapping_calls", "entry_points_under_fault", "settings_read_with_refused_registers", "api_calls_under_fault", "ident_payloads", "discover_payloads", "failed_exception_seen",
        "rejected_exception_seen"]
EXHAUSTIVE = {"quick": False, "thorough": False}
OK_TYPES = ("ok", "RequestFailedException", "RequestRejectedException")
SEND_ERRS = [errno.ENETUNREACH, errno.EHOSTUNREACH, errno.EACCES, errno.ECONNREFUSED]
RECV_ERRS = [errno.ECONNREFUSED, errno.ECONNRESET, errno.ENETUNREACH, errno.EHOSTUNREACH]


# ---- part A: fault scripts through the public single-request API ---------------------------------------
def alpha_for(T):
    a = ["drop", "now", "late", "garbage", "short", "badsum", ["exc", 4], ["exc", 9], "frag1", "dup", "close", "closelate"]
    for e in RECV_ERRS:
        a.append(["rxerr", e, 0.0])
        a.append(["rxerr", e, 0.5 * T])
    for e in SEND_ERRS:
        a.append(["senderr", e])
    a.append(["nowerr", errno.ECONNREFUSED, 1.2 * T])      # error while idle (matters with keep-alive)
    a.append(["nowerr", errno.EHOSTUNREACH, 0.0])
    a.append(["nowexc", 4, 1.2 * T])       # a late exception frame for an already completed request (idle, keep-alive)
    a.append(["nowexc", 6, 0.0])
    a.append(["nowdup", 1.2 * T])          # a duplicated answer that arrives while the (kept-alive) socket is idle
    a.append(["nowdup", 0.01 * T])
    a.append("excbad")                      # an exception frame damaged in transit (wrong checksum)
    return a


def scenario_a(transport, ka, T, R, script, entry, connect=()):
    framing = "rtu" if transport == "udp" else "tcp"
    peer_script, faults = [], {}
    for i, s in enumerate(script):
        if isinstance(s, list) and s[0] == "senderr":
            faults[str(i + 1)] = s[1]
        else:
            peer_script.append(s)
    step = {"rsensor": ["rsensor", 500], "wsetting": ["wsetting", 500, -7], "wmulti": ["multi", 500, "00010002fffe"],
            "send_command": ["api", "send_command", None]}[entry]
    steps = [step, ["sleep", 2.5 * T], ["rsensor", 501]]
    return {"transport": transport, "framing": framing, "keep_alive": ka, "T": T, "R": R, "script": peer_script,
            "fullscript": script, "send_faults": faults, "after": "now", "connect": list(connect), "gc": True,
            "entry": entry, "tasks": [{"start": 0.0, "steps": steps}]}


def check_types(tag, run, part, sc=None):
    out = []
    if run.stop:
        out.append((f"C09/{tag}/hang", run.stop))
    for rec in run.calls:
        if rec["step"][0] in ("sleep", "close", "arm_send_fault"):
            continue
        o = rec["outcome"]
        if o not in OK_TYPES:
            out.append((f"C09/{tag}/raw-exception/{o}",
                        f"public call {rec['step'][:2]} raised {o}: {rec.get('msg', '')[:80]}"
                        + (f" (script {sc.get('fullscript')})" if sc else "")))
        elif o == "RequestFailedException":
            part.count("failed_exception_seen")
        elif o == "RequestRejectedException":
            part.count("rejected_exception_seen")
    for le in run.loop_errors:
        exc = le["exception"].split("(")[0]
        out.append((f"C09/{tag}/callback-exception/{exc}",
                    f"unhandled in an event-loop callback: {le['message']} {le['exception'][:100]}"
                    + (f" (script {sc.get('fullscript')})" if sc else "")))
    return out


def run_a(sc, part):
    g = env.goodwe()
    if sc["entry"] == "send_command":
        req = rc.rtu_request({"kind": "read", "comm": 0xF7, "reg": 500, "count": 1})
        sc = dict(sc)
        sc["tasks"] = [{"start": 0.0, "steps": [["rawcmd", req.hex()], ["sleep", 2.5 * sc["T"]], ["rsensor", 501]]}]
    run = engine.run_scenario(sc)
    part.evaluations += 1
    tag = sc["transport"]
    vs = check_types(tag, run, part, sc)
    evk = [e[1] for e in run.events]
    if "txerr" in evk:
        part.count("os_error_on_send")
    if "rxerr" in evk:
        part.count("os_error_on_receive")
    if sc["keep_alive"] and any(e[1] == "rxerr" and not _in_call(run, i) for i, e in enumerate(run.events)):
        part.count("idle_error_keepalive")
    if any(e[1] == "connect" and e[3] != "ok" for e in run.events):
        part.count("tcp_connect_failure")
    # only damaged frames / silence reached the client during request 1: the inverter refused nothing
    first = run.calls[0] if run.calls else None
    only_damaged = tag == "udp" and sc["fullscript"] and all(x in ("drop", "garbage", "short", "badsum", "excbad") for x in
                                                            (y if isinstance(y, str) else y[0] for y in sc["fullscript"]))
    if first and only_damaged and first["outcome"] == "RequestRejectedException":
        vs.append(("C09/udp/rejected-without-refusal",
                   f"request ended RequestRejectedException('{first.get('msg')}') although only silence / damaged datagrams were received "
                   f"(script {sc['fullscript']})"))
    elif first and only_damaged:
        part.count("damaged_frames_not_a_refusal")
    # the inverter answered transmission 1 with an intact exception frame: it REFUSED - that is a RequestRejectedException, whatever the function
    # (read 0x83, write 0x86, write-multiple 0x90) and not a failed request that counts towards the failure streak
    s0 = sc["fullscript"][0] if sc["fullscript"] else None
    # (not for send_command: a raw command has no Modbus validator, whatever comes back is its answer)
    if first and isinstance(s0, list) and s0[0] == "exc" and not sc.get("connect") and sc["entry"] != "send_command":
        if first["outcome"] != "RequestRejectedException":
            vs.append((f"C09/{tag}/refusal-not-reported-as-rejected",
                       f"{sc['entry']}: the inverter answered with exception code {s0[1]}, the call ended {first['outcome']} (cfc {first.get('cfc')}) (script {sc['fullscript']})"))
        else:
            part.count("refusals_reported_as_rejected")
    part.see(repr(("A", tag, sc["keep_alive"], sc["R"], sc["entry"], tuple(c["outcome"] for c in run.calls),
                   tuple(k for k in evk if k in ("tx", "txerr", "rx", "rxerr", "eof", "connect")))))
    for key, msg in vs:
        part.violate(key, msg, {"part": "A", "scenario": sc, "calls": run.calls,
                                "events": engine.jsonable_events(run.events, 120)})
    if part.evaluations % 499 == 1:
        part.sample({"part": "A", "transport": tag, "keep_alive": sc["keep_alive"], "R": sc["R"], "script": sc["fullscript"],
                     "outcomes": [(c["step"][0], c["outcome"], c.get("cfc")) for c in run.calls]})
    return vs


def _in_call(run, idx):
    depth = 0
    for e in run.events[:idx]:
        if e[1] == "call":
            depth += 1
        elif e[1] == "ret":
            depth -= 1
    return depth > 0


# ---- part B: consecutive-failure count over histories -----------------------------------------------------
def scenario_b(transport, ka, T, R, hist):
    framing = "rtu" if transport == "udp" else "tcp"
    by_reg, steps = {}, []
    for i, h in enumerate(hist):
        reg = 600 + i
        if h == "S":
            by_reg[reg] = ["now"]
        elif h == "F":
            by_reg[reg] = ["drop"] * (R + 1)
        elif h == "E":      # OS error
            by_reg[reg] = [["rxerr", errno.ECONNREFUSED, 0.0]] * (R + 1)
        elif h == "J":
            by_reg[reg] = [["exc", 3]]
        if i % 3 == 2:          # the raw-command entry point takes part in the same count
            cmd_ = {"kind": "read", "comm": 0xF7, "reg": reg, "count": 1}
            pdu = rc.tcp_request_pdu(cmd_)
            steps.append(["rawcmd", (rc.rtu_request(cmd_) if framing == "rtu" else b"\x00\x01\x00\x00" + len(pdu).to_bytes(2, "big") + pdu).hex()])
        else:
            steps.append(["rsensor" if i % 2 == 0 else "wsetting", reg] + ([] if i % 2 == 0 else [5]))
    return {"transport": transport, "framing": framing, "keep_alive": ka, "T": T, "R": R, "by_reg": by_reg,
            "after": "drop", "hist": "".join(hist), "tasks": [{"start": 0.0, "steps": steps}]}


def run_b(sc, part):
    run = engine.run_scenario(sc, quiesce=False)
    part.evaluations += 1
    tag = sc["transport"]
    vs = check_types(tag, run, part)
    failed = rejected = 0
    for h, rec in zip(sc["hist"], run.calls):
        o = rec["outcome"]
        if o == "ok":
            failed = rejected = 0
        elif o == "RequestRejectedException":
            rejected += 1
            part.count("cfc_after_rejection")
        elif o == "RequestFailedException":
            failed += 1
            cfc = rec.get("cfc")
            part.count("cfc_checked")
            if cfc is None or not (failed <= cfc <= failed + rejected):
                vs.append((f"C09/{tag}/consecutive-failures-count",
                           f"history {sc['hist']}: request #{rec['idx']} failed with consecutive_failures_count={cfc}, "
                           f"expected {failed}" + (f"..{failed + rejected}" if rejected else "")))
        want = {"S": "ok", "F": "RequestFailedException", "J": "RequestRejectedException"}.get(h)
        if rec["step"][0] == "rawcmd" and h == "J":
            want = "ok"         # (send_command() takes any answer: a raw command has no validator, the exception frame IS its response)
        if want and o != want and o in OK_TYPES:
            vs.append((f"C09/{tag}/history-outcome", f"history {sc['hist']}: request #{rec['idx']} scripted {h} ended {o}"))
    part.see(repr(("B", tag, sc["keep_alive"], sc["R"], sc["hist"])))
    for key, msg in vs:
        part.violate(key, msg, {"part": "B", "scenario": sc, "calls": run.calls})
    if part.evaluations % 397 == 1:
        part.sample({"part": "B", "transport": tag, "history": sc["hist"],
                     "outcomes": [(c["outcome"], c.get("cfc")) for c in run.calls]})
    return vs


def scenario_b_overlap(transport, ka, T, R, hist_a, hist_b, start_b):
    """two tasks use ONE inverter object at the same time; the count is judged in the order in which the requests ended"""
    sc = scenario_b(transport, ka, T, R, list(hist_a) + list(hist_b))
    steps = sc["tasks"][0]["steps"]
    sc["tasks"] = [{"start": 0.0, "steps": steps[:len(hist_a)]}, {"start": start_b, "steps": steps[len(hist_a):]}]
    sc["hist"] = f"{hist_a}|{hist_b}@{start_b}"
    sc["overlap"] = True
    return sc


def run_b_overlap(sc, part):
    run = engine.run_scenario(sc, quiesce=False)
    part.evaluations += 1
    tag = sc["transport"]
    vs = check_types(tag, run, part)
    ret_at = {e[2]: i for i, e in enumerate(run.events) if e[1] == "ret"}
    calls = sorted(run.calls, key=lambda c: ret_at.get(c["id"], 1 << 30))
    failed = rejected = 0
    overlapped = len({c["task"] for c in run.calls}) > 1 and any(a["task"] != b["task"] and a["t0"] < b["t1"] and b["t0"] < a["t1"]
                                                                 for a in run.calls for b in run.calls)
    for rec in calls:
        o = rec["outcome"]
        if o == "ok":
            failed = rejected = 0
        elif o == "RequestRejectedException":
            rejected += 1
        elif o == "RequestFailedException":
            failed += 1
            cfc = rec.get("cfc")
            if overlapped:
                part.count("cfc_checked_overlapping_calls")
            if cfc is None or not (failed <= cfc <= failed + rejected):
                vs.append((f"C09/{tag}/consecutive-failures-count",
                           f"two tasks on one inverter ({sc['hist']}): in order of completion {[(c['task'], c['outcome'], c.get('cfc')) for c in calls]}: "
                           f"a failure reported consecutive_failures_count={cfc}, expected {failed}" + (f"..{failed + rejected}" if rejected else "")))
                break
    part.see(repr(("Bo", tag, sc["keep_alive"], sc["R"], sc["hist"])))
    for key, msg in vs:
        part.violate(key, msg, {"part": "Bo", "scenario": sc, "calls": run.calls})
    return vs


# ---- part C: every public coroutine under a device fault mode -----------------------------------------------
def api_calls(g, fam, info_first=True):
    OM = g.OperationMode
    calls = [("read_device_info",), ("read_runtime_data",), ("read_sensor", "vpv1"), ("read_sensor", "ppv"),
             ("read_setting", "grid_export_limit"), ("read_settings_data",), ("write_setting", "grid_export_limit", 100),
             ("get_grid_export_limit",), ("set_grid_export_limit", 50),
             ("read_setting", "modbus-47000"), ("write_setting", "modbus-47000", 1)]
    if fam != "ES":
        calls.append(("read_sensor", "modbus-35100"))
    if fam != "DT":
        calls += [("read_setting", "eco_mode_1"), ("write_setting", "eco_mode_1_switch", -1),
                  ("get_operation_mode",), ("set_operation_mode", OM.GENERAL),
                  ("set_operation_mode", OM.BACKUP), ("get_ongrid_battery_dod",), ("set_ongrid_battery_dod", 50)]
        if info_first:      # these consult the model detected by read_device_info()
            calls += [("get_operation_modes", True), ("set_operation_mode", OM.ECO_CHARGE, 50, 50),
                      ("set_operation_mode", OM.ECO_DISCHARGE, 30)]
    else:
        calls += [("read_setting", "time"), ("get_operation_mode",), ("get_ongrid_battery_dod",)]
    if fam == "ES":
        calls += [("write_setting", "time", "2024-05-17T12:30:15")]
    return calls


# (ILLEGAL DATA ADDRESS for *every* register is not a network failure: what the library does with refused blocks is
#  C15/C16's subject, so code 2 is not part of this sweep; codes 4 and 6 must surface as RequestRejectedException)
FAULT_MODES = ["silent", "garbage", "eof", ["recverr", errno.ECONNREFUSED], ["recverr", errno.ECONNRESET],
               ["recverr", errno.EHOSTUNREACH], ["exc", 4], ["exc", 2], ["exc", 6], ["exc", 9], ["exc", 0], ["exc", 12], ["exc", 255], ["senderr", errno.ENETUNREACH],
               ["senderr", errno.EACCES], ["junk", 0], ["junk", 1], ["junk", 3], ["junk", 4], ["junk", 5], ["junk", 6], ["junk", 7], ["junk", 8],
               ["connect", "refused"], ["connect", "unreach"], ["connect", "hang"]]


def run_c(case, part):
    g = env.goodwe()
    fam, port, mode, ka = case["family"], case["port"], case["mode"], case["keep_alive"]
    if isinstance(mode, list) and mode[0] == "connect" and port != 502:
        return []
    if fam == "ESv2":       # an ES unit whose firmware keeps the eco-mode groups in Modbus registers (DSP 22, ARM 15): its setters and getters
        sim = models.es_sim(fw=b"2225F")        # mix AA55 commands and Modbus reads / writes, which the inverter can refuse with exception frames
        fam = "ES"
    else:
        sim = models.family_sim(fam)      # all-zero (decodable) register content: this part is about network faults
    calls = api_calls(g, fam, case["info_first"])
    results = []
    state = {}

    async def flow(loop):
        inv = models.family_cls(g, fam)("inv0", port, 0, case["T"], case["R"])
        inv.set_keep_alive(ka)
        if case["info_first"]:
            await inv.read_device_info()
        # switch the fault on
        if isinstance(mode, list) and mode[0] == "senderr":
            loop.armed_send_faults.extend([mode[1]] * 500)
        elif isinstance(mode, list) and mode[0] == "connect":
            await inv._protocol.close()
            loop.connect_scripts["inv0"] = [mode[1]] * 500
        else:
            sim.fault = tuple(mode) if isinstance(mode, list) else mode
        for c in calls:
            try:
                await getattr(inv, c[0])(*c[1:])
                results.append((c, "ok", ""))
            except asyncio.CancelledError as e:
                results.append((c, "CancelledError", str(e)))
            except Exception as e:      # noqa
                results.append((c, type(e).__name__, str(getattr(e, "message", "") or e)[:80], isinstance(e, g.InverterError),
                                getattr(e, "consecutive_failures_count", None)))
        return None

    import asyncio
    run = engine.run_custom({("inv0", port): sim}, flow, vtime_cap=5000.0, tx_cap=3000)
    part.evaluations += 1
    vs = []
    tag = f"api/{fam}"
    if run.stop:
        vs.append((f"C09/{tag}/hang", f"{case}: {run.stop}"))
    if run.error is not None:
        vs.append((f"C09/{tag}/setup", f"{case}: {run.error!r}"))
    no_answer = mode in ("silent", "eof") or (isinstance(mode, list) and mode[0] in ("recverr", "senderr", "connect")) \
        or ((mode == "garbage" or (isinstance(mode, list) and mode[0] == "junk")) and port != 502)
    prev_cfc = 0
    for r in results:
        c, o = r[0], r[1]
        part.count("api_calls_under_fault")
        if o == "ok":
            continue
        is_inv = len(r) > 3 and r[3]
        if not is_inv and o == "ValueError" and mode == ["exc", 2]:
            # (ILLEGAL DATA ADDRESS on a single sensor / setting read is reported as ValueError 'unknown sensor/setting': documented)
            part.count("illegal_address_reported_as_valueerror")
            continue
        if not is_inv:
            vs.append((f"C09/{tag}/raw-exception/{o}", f"{c[0]}{c[1:]!r} under device fault {mode} (port {port}) raised {o}: {r[2]}"))
        elif no_answer and o == "RequestRejectedException":
            vs.append((f"C09/{tag}/rejected-without-refusal", f"{c[0]}{c[1:]!r} under {mode}: RequestRejectedException although the inverter refused nothing"))
        if o == "RequestFailedException":
            part.count("failed_exception_seen")
            # the count reported through EVERY public entry point of every family: while the inverter cannot be reached no request
            # succeeds, so each failing call reports at least 1 and more than the failing call before it
            cfc = r[4] if len(r) > 4 else None
            if no_answer:
                part.count("cfc_checked_through_api")
                if not isinstance(cfc, int) or cfc <= prev_cfc:
                    vs.append((f"C09/{tag}/consecutive-failures-count",
                               f"{c[0]}{c[1:]!r} under device fault {mode} (port {port}, no request can succeed): RequestFailedException reports "
                               f"consecutive_failures_count={cfc}; the previous failing call reported {prev_cfc}"))
                prev_cfc = cfc if isinstance(cfc, int) else prev_cfc
        if o == "RequestRejectedException":
            part.count("rejected_exception_seen")
    for le in run.loop_errors:
        vs.append((f"C09/{tag}/callback-exception/{le['exception'].split('(')[0]}",
                   f"{case}: unhandled in a loop callback: {le['message']} {le['exception'][:100]}"))
    part.see(repr(("C", fam, port, str(mode), ka, case["info_first"], tuple(r[1] for r in results))))
    for key, msg in vs:
        part.violate(key, msg, {"part": "C", "case": case})
    if part.evaluations % 23 == 1:
        part.sample({"part": "C", "case": case, "outcomes": [(r[0][0], r[1]) for r in results][:12]})
    return vs


def loop_change_part(part):
    """one inverter object used from successive asyncio.run() calls (the library supports it explicitly): the first request of the next
    loop - answered, rejected or unanswered - fails, if at all, only with the library's own exception types, whatever the previous loop
    left behind in the object (a kept-alive transport of a closed loop, a lock, a timer)"""
    for transport, framing in (("udp", "rtu"), ("tcp", "tcp")):
        for ka in (True, False):
            for first in ("now", "drop", ["exc", 2]):
                for second in ("now", "drop", ["exc", 4], "garbage"):
                    for entry in ("read", "rsensor"):
                        st1 = ["read", 700, 2] if entry == "read" else ["rsensor", 700]
                        st2 = ["read", 701, 2] if entry == "read" else ["rsensor", 701]
                        sc = {"transport": transport, "framing": framing, "keep_alive": ka, "T": 1, "R": 1, "after": "drop",
                              "by_reg": {700: [first, "now"], 701: [second, second, second]},
                              "segments": [[{"start": 0.0, "steps": [st1]}], [{"start": 0.0, "steps": [st2, st2]}], [{"start": 0.0, "steps": [st1]}]]}
                        run = engine.run_scenario(sc, quiesce=False)
                        part.evaluations += 1
                        part.count("requests_after_an_event_loop_change")
                        part.see(repr(("loopchange", transport, ka, str(first), str(second), entry)))
                        for key, msg in check_types(transport, run, part):
                            part.violate(key, f"keep_alive={ka}, new asyncio.run() after a request that was answered with {first}: {msg}", {"part": "L"})


def probe_failures_part(part):
    """ET.read_device_info() succeeds although its optional feature probes (eco-mode v2 at 47547, peak shaving at 47589) get no answer; then the
    inverter stops answering altogether and a public call fails: its consecutive_failures_count is the number of REQUESTS that failed since
    the last request that was answered - counted independently from the wire log (groups of identical transmissions without an answer)"""
    from .. import models
    g = env.goodwe()
    for port in (8899, 502):
        for R in (0, 1):
            for silent_regs in ({47547, 47589}, {47589}, {47547}, set()):
                for ka in (False, True):
                    sim = models.et_sim()
                    sim.silent_regs = set(silent_regs)
                    res = {}

                    async def flow(loop):
                        inv = g.ET("inv0", port, 0, 1, R)
                        inv.set_keep_alive(ka)
                        await inv.read_device_info()
                        sim.silent = True
                        for k in range(2):
                            try:
                                await inv.read_setting("modbus-47000")
                            except g.exceptions.RequestFailedException as e:
                                res.setdefault("cfc", []).append(e.consecutive_failures_count)
                    run = engine.run_custom({("inv0", port): sim}, flow, vtime_cap=600, tx_cap=600)
                    part.evaluations += 1
                    case = {"part": "P"}
                    if run.stop or run.error is not None:
                        part.violate("C09/api/ET/setup", f"probe failures: {run.stop or repr(run.error)[:100]}", case)
                        continue
                    # independent count from the wire
                    un = getattr(sim, "unanswered", set())
                    groups = []         # [key, answered, transmissions]: a request = up to R + 1 identical transmissions, the last one answered or none
                    for i, (t, n, req, raw) in enumerate(sim.log):
                        key = (req["kind"], req["reg"], req.get("count"))
                        if groups and groups[-1][0] == key and not groups[-1][1] and groups[-1][2] < R + 1:
                            groups[-1][1] = i not in un
                            groups[-1][2] += 1
                        else:
                            groups.append([key, i not in un, 1])
                    failed = 0
                    want = []
                    for key, ok_, _ntx in groups:
                        failed = 0 if ok_ else failed + 1
                        if key == ("read", 47000, 1) and not ok_:
                            want.append(failed)
                    part.count("failure_count_vs_wire_log")
                    part.see(f"probe|{port}|{R}|{sorted(silent_regs)}|{ka}")
                    if res.get("cfc") != want:
                        part.violate("C09/api/ET/consecutive-failures-count",
                                     f"ET port {port} retries {R} keep_alive={ka}: probes at {sorted(silent_regs)} unanswered during read_device_info(), then two failing "
                                     f"read_setting calls report consecutive_failures_count {res.get('cfc')}; the wire log shows {want} failed requests in a row "
                                     f"(request groups {[(k[1], o) for k, o, _ in groups][-6:]})", case)


# ---- part D: identification payloads ---------------------------------------------------------------------
def payload(rnd, n, style):
    if style == "random":
        return bytes(rnd.randrange(256) for _ in range(n))
    if style == "nonascii":
        return bytes(rnd.randrange(128, 256) for _ in range(n))
    if style == "control":
        return bytes(rnd.randrange(0, 32) for _ in range(n))
    if style == "mixed":
        return bytes(rnd.choice((rnd.randrange(32, 127), rnd.randrange(256), 0, 0xD8, 0xDC, 0xFF)) for _ in range(n))
    if style == "padded":       # printable fields of every length, space / NUL padded (firmware '1010 ', model 'GW5K   ' ...)
        out = bytearray()
        while len(out) < n:
            ln = rnd.randrange(0, 8)
            out += bytes(rnd.choice(b"0123456789ABCDEFGHKSW-") for _ in range(ln)) + rnd.choice((b" ", b"  ", b"\x00", b"     "))
        return bytes(out[:n])
    if style == "surrogate":
        b = bytearray(rnd.randrange(32, 127) for _ in range(n))
        for i in range(0, n - 1, 2):
            if rnd.random() < 0.3:
                b[i], b[i + 1] = rnd.choice((0xD8, 0xDC, 0xDB, 0xDF)), rnd.randrange(256)
        if n > 2:
            b[rnd.randrange(n)] = rnd.randrange(0, 32)
        return bytes(b)
    raise ValueError(style)


def run_d(case, part):
    import asyncio
    g = env.goodwe()
    rnd = random.Random(case["seed"])
    fam, style = case["target"], case["style"]
    if fam == "ET":
        sim = models.et_sim()
        sim.set_bytes(35000, payload(rnd, 66, style))
    elif fam == "DT":
        sim = models.dt_sim()
        sim.set_bytes(30001, payload(rnd, 80, style))
        sim.set_bytes(0x9CED, payload(rnd, 16, style))
        sim.set_bytes(0x756f, payload(rnd, 40, style))
    else:
        n = case.get("length", 64)
        sim = models.es_sim()
        sim.info = payload(rnd, n, style)
        if fam == "discover" and rnd.random() < 0.5 and n >= 47:
            # plant a model tag so that discover() continues into a family
            tag = rnd.choice(("ETU", "DTU", "ESU", "EHU", "MSU", "BPS")).encode()
            b = bytearray(sim.info)
            b[36:39] = tag
            sim.info = bytes(b)
    port = 8899

    async def flow(loop):
        if fam == "discover":
            inv = await g.discover("inv0", port, 1, 0)
        else:
            inv = models.family_cls(g, fam)("inv0", port, 0, 1, 0)
            await inv.read_device_info()
        return (inv.model_name, inv.serial_number, inv.firmware)

    run = engine.run_custom({("inv0", port): sim}, flow, vtime_cap=2000.0)
    part.evaluations += 1
    part.count("discover_payloads" if fam == "discover" else "ident_payloads")
    vs = []
    tag = f"ident/{fam}"
    if run.stop:
        vs.append((f"C09/{tag}/hang", f"{case}: {run.stop}"))
    if run.error is not None and not isinstance(run.error, g.InverterError):
        vs.append((f"C09/{tag}/raw-exception/{type(run.error).__name__}",
                   f"{case}: {type(run.error).__name__}: {str(run.error)[:100]}"))
    for le in run.loop_errors:
        vs.append((f"C09/{tag}/callback-exception", f"{case}: {le['message']} {le['exception'][:100]}"))
    part.see(repr(("D", fam, style, case.get("length"), type(run.error).__name__ if run.error else "ok",
                   bool(run.result and run.result[1] and run.result[1].isascii()) if run.result else None)))
    for key, msg in vs:
        part.violate(key, msg, {"part": "D", "case": case})
    if part.evaluations % 199 == 1:
        part.sample({"part": "D", "case": case, "result": repr(run.result)[:120], "error": repr(run.error)[:80]})
    return vs


# ---- plan ------------------------------------------------------------------------------------------------
def plan(tier, seed):
    specs = []
    for transport in ("udp", "tcp"):
        for ka in (False, True):
            for R in ((0, 1) if tier == "quick" else (0, 1, 2)):
                for entry in ("rsensor", "wsetting", "send_command", "wmulti"):
                    if tier == "quick" and R == 1 and entry != "rsensor":
                        continue
                    specs.append({"part": "A", "transport": transport, "ka": ka, "R": R, "entry": entry})
            specs.append({"part": "B", "transport": transport, "ka": ka, "len": 5 if tier == "quick" else 8,
                          "R": 1})
        specs.append({"part": "Aconnect", "depth": 3 if tier == "quick" else 4})
    for fam in ("ET", "DT", "ES", "ESv2"):
        for port in ((8899, 502) if not fam.startswith("ES") else (8899,)):
            specs.append({"part": "C", "family": fam, "port": port})
    n = 4 if tier == "quick" else 16
    for i in range(n):
        specs.append({"part": "D", "seed": f"{seed}:C09:D:{i}", "n": 150 if tier == "quick" else 1500})
    return specs


def run_shard(spec):
    part = Part()
    p = spec["part"]
    if p == "A":
        T, R = 1, spec["R"]
        for script in itertools.product(alpha_for(T), repeat=R + 1):
            run_a(scenario_a(spec["transport"], spec["ka"], T, R, list(script), spec["entry"]), part)
        # the answer cut off after k bytes, for every k (a read answer, a write echo, the raw command's answer): too short to be judged is a failed
        # attempt like any other damaged answer
        for k in range(1, 16):
            for tail in ([], ["now"]):
                run_a(scenario_a(spec["transport"], spec["ka"], T, R, ([["frag1", k]] * (R + 1) + tail)[:R + 1 + len(tail)], spec["entry"]), part)
                part.count("answers_cut_off_at_every_length")
    elif p == "Aconnect":
        probe_failures_part(part)
        loop_change_part(part)
        # a long-running process: failing and served Modbus/TCP requests while the process-wide transaction counter passes its 16-bit end
        g0 = env.goodwe()
        probe = g0.protocol.ModbusTcpReadCommand(0xF7, 100, 2)
        for _ in range(140000):
            try:
                if int.from_bytes(probe.request_bytes()[0:2], "big") >= 65531:
                    break
            except Exception:       # noqa  (building requests in a loop is C03's subject; here the public calls that follow count)
                break
        for k in range(6):
            for ka in (False, True):
                vs_ = run_a(scenario_a("tcp", ka, 1, 1, [["drop", "drop", "now"], ["now", "now"], ["garbage", "drop", "now"]][k % 3], ["rsensor", "wsetting", "wmulti"][k % 3]), part)
                if not vs_:
                    part.count("requests_across_transaction_id_wrap")
        for R in (0, 1, 2):
            for d in range(1, spec["depth"] + 1):
                for cs in itertools.product(["ok", "refused", "unreach", "hostunreach", "timeout", "hang"], repeat=d):
                    for ka in (False, True):
                        run_a(scenario_a("tcp", ka, 1, R, ["now", "drop", "now"], "rsensor", connect=list(cs)), part)
    elif p == "B":
        R = spec["R"]
        for L in range(1, spec["len"] + 1):
            for hist in itertools.product("SFJE" if L <= 5 else "SFJ", repeat=L):
                if L > 6 and hash(hist) % 3:
                    continue
                run_b(scenario_b(spec["transport"], spec["ka"], 1, R, hist), part)
        # the same histories issued by two tasks at once on the one inverter object
        for la in (1, 2, 3):
            for ha in itertools.product("SFJ", repeat=la):
                for hb in itertools.product("SFJ", repeat=2):
                    for start_b in (0.0, 0.5, 1.5):
                        run_b_overlap(scenario_b_overlap(spec["transport"], spec["ka"], 1, R, "".join(ha), "".join(hb), start_b), part)
    elif p == "C":
        for mode in FAULT_MODES:
            for ka in (False, True):
                for info_first in (True, False):
                    run_c({"family": spec["family"], "port": spec["port"], "mode": mode, "keep_alive": ka,
                           "info_first": info_first, "T": 1, "R": 1}, part)
    elif p == "D":
        if str(spec["seed"]).endswith(":0") or spec["seed"] == "replay":
            entry_points_under_fault(part)
        # connect() asked neither for a family nor for discovery: a usage error, reported through the same exception family
        import asyncio
        g = env.goodwe()
        for fam in (None, "XX", ""):
            try:
                asyncio.run(g.connect("inv0", 8899, fam, 0, 1, 0, False))
                out = "returned"
            except g.InverterError:
                out = "InverterError"
            except Exception as e:      # noqa
                out = type(e).__name__
            part.evaluations += 1
            if out != "InverterError":
                part.violate(f"C09/api/connect/raw-exception/{out}", f"connect(family={fam!r}, do_discover=False) ended {out}", {"part": "D0"})
        rnd = random.Random(spec["seed"])
        for i in range(spec["n"]):
            target = rnd.choice(("ET", "DT", "ES", "discover"))
            style = rnd.choice(("random", "nonascii", "control", "mixed", "surrogate", "padded", "padded"))
            case = {"target": target, "style": style, "seed": f"{spec['seed']}:{i}"}
            if target in ("ES", "discover"):
                case["length"] = rnd.choice((0, 1, 4, 5, 14, 15, 30, 31, 46, 47, 50, 62, 63, 64, 65, 100, 255))
            run_d(case, part)
    return part


def entry_points_under_fault(part):
    """discover() / connect() without a family / search_inverters() against an inverter in a fault mode, and ET.read_settings_data()
    while single setting registers are refused: nothing but InverterError (or a result) may come out"""
    import asyncio
    g = env.goodwe()
    for fam in ("ET", "DT", "ES"):
        for port in ((8899, 502) if fam != "ES" else (8899,)):
            for mode in ("silent", "garbage", ["junk", 0], ["junk", 5], ["junk", 8], "eof", ["recverr", errno.ECONNREFUSED], ["exc", 4], ["exc", 2]):
                for entry in ("discover", "connect"):
                    sim = models.family_sim(fam)
                    sim.fault = tuple(mode) if isinstance(mode, list) else mode
                    res = {}

                    async def flow(loop):
                        try:
                            await (g.discover("inv0", port, 1, 1) if entry == "discover" else g.connect("inv0", port, None, 0, 1, 1))
                            res["out"] = "ok"
                        except g.InverterError:
                            res["out"] = "InverterError"
                        except asyncio.CancelledError:
                            res["out"] = "CancelledError"
                        except Exception as e:      # noqa
                            res["out"] = type(e).__name__ + ": " + str(e)[:80]
                    run = engine.run_custom({("inv0", port): sim}, flow, vtime_cap=600, tx_cap=600)
                    part.evaluations += 1
                    part.count("entry_points_under_fault")
                    case = {"part": "D1"}
                    if run.stop:
                        part.violate(f"C09/api/{entry}/hang", f"{entry}() port {port} against a {fam} inverter in fault mode {mode}: {run.stop}", case)
                    elif res.get("out") not in ("ok", "InverterError"):
                        part.violate(f"C09/api/{entry}/raw-exception/{res.get('out', '?').split(':')[0]}",
                                     f"{entry}() port {port} against a {fam} inverter in fault mode {mode} ended with {res.get('out')}", case)
                    for le in run.loop_errors:
                        part.violate(f"C09/api/{entry}/callback-exception/{le['exception'].split('(')[0]}",
                                     f"{entry}() port {port}, {fam}, fault {mode}: unhandled in a loop callback: {le['message']} {le['exception'][:100]}", case)
    for port in (8899, 502):
        for regs in ((47120,), (45482, 47010), (47500, 47916, 45132), (45200,)):
            sim = models.family_sim("ET")
            for a in regs:
                sim.refused.append((a, a))
            res = {}

            async def flow(loop):
                inv = g.ET("inv0", port, 0, 1, 0)
                await inv.read_device_info()
                for call in ("read_settings_data", "read_settings_data"):
                    try:
                        await getattr(inv, call)()
                        res[call] = "ok"
                    except g.InverterError:
                        res[call] = "InverterError"
                    except Exception as e:      # noqa
                        res[call] = type(e).__name__ + ": " + str(e)[:80]
            run = engine.run_custom({("inv0", port): sim}, flow, vtime_cap=600, tx_cap=2000)
            part.evaluations += 1
            part.count("settings_read_with_refused_registers")
            if run.stop or run.error is not None or res.get("read_settings_data") not in ("ok", "InverterError"):
                part.violate(f"C09/api/ET/raw-exception/{str(res.get('read_settings_data', run.stop or run.error)).split(':')[0]}",
                             f"ET.read_settings_data() port {port} with setting registers {regs} refused: {res.get('read_settings_data')} {run.stop or ''} "
                             f"{repr(run.error) if run.error is not None else ''}", {"part": "D1"})


def replay(case):
    part = Part()
    p = case["part"]
    if p == "A":
        vs = run_a(case["scenario"], part)
    elif p == "B":
        vs = run_b(case["scenario"], part)
    elif p == "Bo":
        vs = run_b_overlap(case["scenario"], part)
    elif p == "L":
        loop_change_part(part)
        return [{"key": v["key"], "msg": v["msg"]} for v in part.violations]
    elif p == "P":
        probe_failures_part(part)
        return [{"key": v["key"], "msg": v["msg"]} for v in part.violations]
    elif p == "D1":
        entry_points_under_fault(part)
        return [{"key": v["key"], "msg": v["msg"]} for v in part.violations]
    elif p == "D0":
        run_shard({"part": "D", "seed": "replay", "n": 0})
        vs = []
    elif p == "C":
        vs = run_c(case["case"], part)
    else:
        vs = run_d(case["case"], part)
    return [{"key": k, "msg": m} for k, m in vs]
