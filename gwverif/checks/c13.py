"""C13  Derived and label sensors always agree with the raw sensors of the same read (exploration)."""
from __future__ import annotations

import random
from fractions import Fraction

from .. import blocks, env
from .. import refsensors as rs
from ..runner import Part

PROPERTY = "C13"
LEVEL = "exploration"
RULE = ("for every runtime table of ET, DT, ES: (labels) each '<x>_label' / bitmap-label sensor is evaluated together with its raw "
        "code sensor through the real Inverter._map_response for ALL contents of each code word (256 / 65536; two-word bitmaps: "
        "each word exhaustive with the other in {0, 1, 0x8000, 0xFFFF, random}); (formulas) ppv, house_consumption, grid_in_out, "
        "round(v*i) powers and the ES signed battery / grid powers are checked on whole-table decodes of boundary + random "
        "blocks against their definitions over the raw values OF THE SAME RESULT; distinct = distinct (family, relation, "
        "operand class) tuples")
ASSUMPTIONS = [
    "label tables are taken from goodwe.const as data; the definitions (lookup, set bits incl. err<i> for unknown bits and "
    "skipped empty labels, high*65536+low, sum with None counted 0, round(v*i), documented thresholds of grid_in_out) are the oracle's",
    "a rounding tie within 1e-6 accepts either neighbour",
]
MUST = ["end_to_end_bitmap22_labels", "source_constants_as_register_contents", "small_codes_in_code_sensors", "earlier_object_polled_again", "end_to_end_results", "end_to_end_with_mppt_block", "end_to_end_labels", "bitmap4_whole_table_checked", "label_pairs_checked", "bitmap4_checked", "bitmap22_checked", "nonempty_bitmap_labels", "sum_checked", "product_checked",
        "grid_in_out_checked", "house_consumption_checked", "es_signed_powers_checked"]
EXHAUSTIVE = {"quick": False, "thorough": True}


def words_for(rnd, nbytes, full):
    if nbytes == 1:
        return [bytes([v]) for v in range(256)]
    if full:
        return [v.to_bytes(2, "big") for v in range(65536)]
    vals = set(range(0, 300)) | {0x7FFF, 0x8000, 0xFFFE, 0xFFFF} | {1 << i for i in range(16)} | \
        {rnd.randrange(65536) for _ in range(3000)}
    return [v.to_bytes(2, "big") for v in sorted(vals)]


def label_relations(block):
    """[(kind, label sensor, raw sensor(s))] found in a table."""
    ids = {}
    for sn in block["sensors"]:
        ids.setdefault(sn.id_, sn)
    rel = []
    for sn in block["sensors"]:
        t = type(sn).__name__
        if t in ("Enum", "EnumH", "EnumL", "Enum2", "EnumCalculated") and sn.id_.endswith("_label"):
            base = ids.get(sn.id_[:-6])
            if base is not None:
                rel.append(("label", sn, (base,)))
        elif t == "EnumBitmap4":
            base = next((x for x in block["sensors"] if type(x).__name__ == "Long" and x.offset == sn.offset), None)
            if base is not None:
                rel.append(("bitmap4", sn, (base,)))
        elif t == "EnumBitmap22":
            # (the code words of '<x>' are the sensors named '<x>_h' and '<x>_l'; falling back to the registers the label itself names)
            hi = ids.get(sn.id_ + "_h") or next((x for x in block["sensors"] if type(x).__name__ == "Integer" and x.offset == sn.offset), None)
            lo = ids.get(sn.id_ + "_l") or next((x for x in block["sensors"] if type(x).__name__ == "Integer" and x.offset == sn._offsetL), None)
            if hi is None or lo is None:
                # no sensor exposes the two code words: read them as plain 16-bit words at the registers the label names
                from .. import env as _env
                I_ = _env.goodwe().sensor.Integer
                hi, lo = I_(sn.id_ + "__high_word", sn.offset, "high code word"), I_(sn.id_ + "__low_word", sn._offsetL, "low code word")
            rel.append(("bitmap22", sn, (hi, lo)))
    return rel


def check_labels(spec, part):
    g = env.goodwe()
    rnd = random.Random(spec["seed"])
    MR = g.inverter.Inverter._map_response
    gi = -1
    for fam, port in (("ET", 8899), ("DT", 8899), ("ES", 8899), ("ET", 502)):
        for block in blocks.family_blocks(g, fam, port):
            if block["name"] in ("meter_basic", "meter_ext"):
                continue
            rels = label_relations(block)
            for ri, (kind, lab, raws) in enumerate(rels):
                gi += 1
                if gi % spec["shards"] != spec["shard"]:
                    continue
                n = block["nbytes"]
                case0 = {"family": fam, "port": port, "block": block["name"], "label": lab.id_, "kind": kind}
                if kind == "label":
                    base = raws[0]
                    pos = blocks.pos_of(block, base) if type(lab).__name__ != "EnumCalculated" else blocks.pos_of(block, 35140)
                    nb = 1 if type(base).__name__ in ("Byte",) else 2
                    if type(lab).__name__ == "EnumCalculated":
                        nb = 2
                    for w in words_for(rnd, nb, spec["full"]):
                        pl = bytearray(blocks.styled_payload(rnd, n, "zero"))
                        pl[pos:pos + nb] = w
                        d = MR(blocks.fast_response(g, block, bytes(pl)), (base, lab))
                        part.evaluations += 1
                        part.count("label_pairs_checked")
                        want = lab._labels.get(d[base.id_])
                        if d[lab.id_] != want:
                            part.violate(f"C13/{fam}/label/{lab.id_}",
                                         f"{fam} {lab.id_}={d[lab.id_]!r} but {base.id_}={d[base.id_]!r} maps to {want!r} (code word {w.hex()})",
                                         dict(case0, word=w.hex()))
                    part.see(f"{fam}|label|{lab.id_}")
                elif kind == "bitmap4":
                    base = raws[0]
                    pos = blocks.pos_of(block, base)
                    for half in (0, 1):
                        for w in words_for(rnd, 2, spec["full"]):
                            for other in (b"\x00\x00", b"\x00\x01", b"\x80\x00", b"\xff\xff", rnd.randrange(65536).to_bytes(2, "big")):
                                pl = bytearray(n)
                                word = (w + other) if half == 0 else (other + w)
                                pl[pos:pos + 4] = word
                                d = MR(blocks.fast_response(g, block, bytes(pl)), (base, lab))
                                part.evaluations += 1
                                part.count("bitmap4_checked")
                                code = d[base.id_]          # Long: all-ones reads 0, which is also the bitmap convention
                                want = rs.bitmap_labels(code, lab._labels)
                                if d[lab.id_]:
                                    part.count("nonempty_bitmap_labels")
                                if d[lab.id_] != want:
                                    part.violate(f"C13/{fam}/bitmap4/{lab.id_}",
                                                 f"{fam} {lab.id_}={d[lab.id_]!r} but {base.id_}=0x{code:08x} has the set bits {want!r}",
                                                 dict(case0, word=word.hex()))
                    part.see(f"{fam}|bitmap4|{lab.id_}")
                else:
                    hi, lo = raws
                    ph, plo = blocks.pos_of(block, hi), blocks.pos_of(block, lo)
                    for which in (0, 1):
                        for w in words_for(rnd, 2, spec["full"]):
                            for other in (b"\x00\x00", b"\x00\x01", b"\x80\x00", b"\xff\xff", rnd.randrange(65536).to_bytes(2, "big")):
                                pl = bytearray(n)
                                h, l = (w, other) if which == 0 else (other, w)
                                pl[ph:ph + 2] = h
                                pl[plo:plo + 2] = l
                                d = MR(blocks.fast_response(g, block, bytes(pl)), (hi, lo, lab))
                                part.evaluations += 1
                                part.count("bitmap22_checked")
                                hv, lv = d[hi.id_], d[lo.id_]
                                want = rs.bitmap_labels(hv * 65536 + lv, lab._labels)
                                got = d[lab.id_]
                                if got:
                                    part.count("nonempty_bitmap_labels")
                                if got != want:
                                    # classify by mechanism: the code computes  H << (16 + L)  (operator precedence)
                                    prec = rs.bitmap_labels((hv << (16 + lv)) & 0xFFFFFFFF if lv < 64 else 0, lab._labels)
                                    key = f"C13/{fam}/bitmap22/shift-precedence/{lab.id_}" if got == prec else f"C13/{fam}/bitmap22/{lab.id_}"
                                    part.violate(key, f"{fam} {lab.id_}={got!r} but {hi.id_}=0x{hv:04x}, {lo.id_}=0x{lv:04x} "
                                                      f"(high*65536+low) has the set bits {want!r}", dict(case0, h=h.hex(), l=l.hex()))
                    part.see(f"{fam}|bitmap22|{lab.id_}")


def V10(x):     # Voltage / Current raw reading as exact tenths (value may be 0 for 0xFFFF)
    return Fraction(x).limit_denominator(10)


def check_formulas(spec, part):
    g = env.goodwe()
    rnd = random.Random(spec["seed"])
    MR = g.inverter.Inverter._map_response
    # boundary-seeking contents: each small integer constant found in the source under test (with neighbours and negations) held by every
    # word / every double word (both alignments) of the block at once - the formulas branch on comparisons against such constants
    hv = [v for v in env.harvest_ints() if abs(v) <= 1100 or abs(v) in (32766, 32767, 32768, 32769, 65534, 65535, 65536)]
    forced_list = [(v, lay) for k, v in enumerate(hv) if k % spec.get("hv_stride", 1) == spec.get("hv_phase", 0) % spec.get("hv_stride", 1)
                   for lay in (0, 1, 2)]
    for it in range(spec["n"] + len(forced_list)):
        forced = forced_list[it - spec["n"]] if it >= spec["n"] else None
        for fam, port in (("ET", rnd.choice((8899, 502))), ("DT", rnd.choice((8899, 502))), ("ES", 8899)):
            for block in blocks.family_blocks(g, fam, port):
                if block["name"] not in ("running", "runtime"):
                    continue
                style = rnd.choice(("random", "mixed", "sentinel", "zero", "ff", "harvest"))
                pl = bytearray(blocks.styled_payload(rnd, block["nbytes"], style))
                mod = forced is None
                if forced is not None:
                    v_, lay = forced
                    n_ = block["nbytes"]
                    w_, dw_ = (v_ & 0xFFFF).to_bytes(2, "big"), (v_ & 0xFFFFFFFF).to_bytes(4, "big")
                    pl = bytearray(((w_ * (n_ // 2 + 1)), (dw_ * (n_ // 4 + 1)), (dw_[2:] + dw_ * (n_ // 4 + 1)))[lay][:n_])
                    style = "harvest-uniform"
                    part.count("source_constants_as_register_contents")
                if mod and fam == "ET" and rnd.random() < 0.5:
                    p = blocks.pos_of(block, 35140)
                    pl[p:p + 2] = rnd.choice((-92, -91, -90, -89, 0, 89, 90, 91, 32767, -32768)).to_bytes(2, "big", signed=True)
                if mod and rnd.random() < 0.6:
                    # the code sensors (those with a '<id>_label' companion) hold small codes - the values the formulas branch on -
                    # instead of random bytes: every combination of e.g. battery_mode x grid_in_out comes up
                    ids_ = {sn.id_ for sn in block["sensors"]}
                    for sn in block["sensors"]:
                        if sn.id_ + "_label" in ids_ and getattr(sn, "size_", 0) in (1, 2) and type(sn).__name__ not in ("EnumBitmap4", "EnumBitmap22"):
                            pc = blocks.pos_of(block, sn)
                            pl[pc:pc + sn.size_] = rnd.choice((0, 1, 2, 3, 4, 5, 2, 3)).to_bytes(sn.size_, "big")
                    part.count("small_codes_in_code_sensors")
                bm = [sn for sn in block["sensors"] if type(sn).__name__ == "EnumBitmap4"]
                if mod and bm and rnd.random() < 0.5:
                    word = rnd.choice((1, 2, 0x2001, 0x80000000, rnd.randrange(1, 2 ** 32), 1 << rnd.randrange(32))).to_bytes(4, "big")
                    for sn in bm:       # the same non-zero word in sensors that use DIFFERENT label tables
                        p4 = blocks.pos_of(block, sn)
                        pl[p4:p4 + 4] = word
                d = MR(blocks.fast_response(g, block, bytes(pl)), block["sensors"])
                part.evaluations += 1
                case = {"formula": True, "family": fam, "port": port, "payload": bytes(pl).hex()}
                for sn in bm:
                    code = rs.s(pl[blocks.pos_of(block, sn):blocks.pos_of(block, sn) + 4])
                    want_lab = rs.bitmap_labels(0 if code == -1 else code & 0xFFFFFFFF, sn._labels)
                    part.count("bitmap4_whole_table_checked")
                    if d[sn.id_] != want_lab:
                        part.violate(f"C13/{fam}/bitmap4/{sn.id_}", f"{fam} whole-table decode: {sn.id_}={d[sn.id_]!r} but its code word "
                                     f"0x{code & 0xFFFFFFFF:08x} has the set bits {want_lab!r}", case)

                def bad(rel, msg):
                    part.violate(f"C13/{fam}/formula/{rel}", f"{fam}: {msg}", case)

                def z(v):
                    return 0 if v is None else v
                if fam == "ET":
                    parts = [d.get(f"ppv{i}") for i in (1, 2, 3, 4)]
                    want = sum(max(0, z(p)) for p in parts)
                    part.count("sum_checked")
                    if d["ppv"] != want:
                        bad("ppv", f"ppv={d['ppv']} but ppv1..4={parts} sum to {want}")
                    hc = sum(z(p) for p in parts) + d["pbattery1"] - d["active_power"]
                    part.count("house_consumption_checked")
                    if d["house_consumption"] != hc:
                        bad("house_consumption", f"house_consumption={d['house_consumption']} but ppv1..4 + pbattery1 - active_power = {hc}")
                    ap = d["active_power"]
                    gio = 2 if ap < -90 else (1 if ap >= 90 else 0)
                    part.count("grid_in_out_checked")
                    if d["grid_in_out"] != gio:
                        bad("grid_in_out", f"grid_in_out={d['grid_in_out']} but active_power={ap} means {gio}")
                    part.see(f"ET|formula|{style}|{gio}")
                elif fam == "DT":
                    for k, (v, i) in {"ppv1": ("vpv1", "ipv1"), "ppv2": ("vpv2", "ipv2"), "ppv3": ("vpv3", "ipv3"),
                                      "pgrid1": ("vgrid1", "igrid1"), "pgrid2": ("vgrid2", "igrid2"), "pgrid3": ("vgrid3", "igrid3")}.items():
                        exact = V10(d[v]) * V10(d[i])
                        part.count("product_checked")
                        if not rs.round_half_ok(d[k], exact):
                            bad(k, f"{k}={d[k]} but {v}={d[v]} x {i}={d[i]} = {float(exact)}")
                    part.count("sum_checked")
                    if d["ppv"] != d["ppv1"] + d["ppv2"] + d["ppv3"]:
                        bad("ppv", f"ppv={d['ppv']} but ppv1+ppv2+ppv3={d['ppv1'] + d['ppv2'] + d['ppv3']}")
                    part.see(f"DT|formula|{style}")
                else:
                    none_ids = [k for k in ("ppv1", "ppv2", "ppv", "ibattery1", "pbattery1", "pgrid", "plant_power", "house_consumption", "grid_in_out", "battery_mode")
                                if d.get(k) is None]
                    if none_ids:
                        # a derived value without a value, although every raw word it is built from decodes (all 16-bit words do)
                        bad(none_ids[0], f"{none_ids} reported as None; the registers they are derived from hold plain numbers "
                                         f"(battery_mode byte {pl[30]}, grid mode byte {pl[80] if len(pl) > 80 else None})")
                        continue
                    for k, (v, i) in {"ppv1": ("vpv1", "ipv1"), "ppv2": ("vpv2", "ipv2")}.items():
                        exact = V10(d[v]) * V10(d[i])
                        part.count("product_checked")
                        if not rs.round_half_ok(d[k], exact):
                            bad(k, f"{k}={d[k]} but {v}={d[v]} x {i}={d[i]} = {float(exact)}")
                    if d["ppv"] != d["ppv1"] + d["ppv2"]:
                        bad("ppv", f"ppv={d['ppv']} but ppv1+ppv2={d['ppv1'] + d['ppv2']}")
                    raw_ib = rs.u(pl[18:20])
                    ib = 0 if raw_ib == 0xFFFF else Fraction(raw_ib, 10)
                    sign_b = -1 if d["battery_mode"] == 3 else 1
                    part.count("es_signed_powers_checked")
                    if not rs.same(d["ibattery1"], ib * sign_b if ib else 0) and not (ib == 0 and d["ibattery1"] == 0):
                        bad("ibattery1", f"ibattery1={d['ibattery1']} but |current|={float(ib)} battery_mode={d['battery_mode']}")
                    exact = V10(d["vbattery1"]) * ib
                    pb = d["pbattery1"]
                    if not (rs.round_half_ok(abs(pb), exact) and (pb == 0 or (pb < 0) == (sign_b < 0))):
                        bad("pbattery1", f"pbattery1={pb} but vbattery1={d['vbattery1']} x |ibattery|={float(ib)} with battery_mode={d['battery_mode']}")
                    raw_pg = rs.s(pl[38:40])
                    sign_g = -1 if d["grid_in_out"] == 2 else 1
                    if d["pgrid"] != abs(raw_pg) * sign_g:
                        bad("pgrid", f"pgrid={d['pgrid']} but |register|={abs(raw_pg)} with grid_in_out={d['grid_in_out']}")
                    if d["plant_power"] != z(d["pload"]) + z(d["pback_up"]):
                        bad("plant_power", f"plant_power={d['plant_power']} but pload={d['pload']} + pback_up={d['pback_up']}")
                    hc = d["ppv1"] + d["ppv2"] + d["pbattery1"] - d["pgrid"]
                    part.count("house_consumption_checked")
                    if d["house_consumption"] != hc:
                        bad("house_consumption", f"house_consumption={d['house_consumption']} but ppv1+ppv2+pbattery1-pgrid={hc}")
                    part.see(f"ES|formula|{style}|{sign_b}|{sign_g}")
                if part.evaluations % 1999 == 3:
                    part.sample({"family": fam, "style": style, "values": {k: repr(d.get(k)) for k in
                                 ("ppv", "ppv1", "ppv2", "house_consumption", "grid_in_out", "active_power", "pbattery1", "pgrid") if k in d}})


def check_e2e(spec, part):
    """the relations on what read_runtime_data() finally returns (all blocks of the model merged), against a simulated inverter"""
    from .. import configs, engine, models
    g = env.goodwe()
    rnd = random.Random(spec["seed"])
    prev = None         # the inverter object of the previous iteration is polled once more AFTER this one's read_device_info()
    for i in range(spec["n"]):
        fam = rnd.choice(("ET", "ET", "ET", "DT", "ES"))
        if fam == "ET":
            cfg = {"family": "ET", "tag": rnd.choice(("ETU", "ETT", "EHU", "BTU", "29K9ET", "25KET", "HSB")), "rated": rnd.choice((5000, 20000, 30000)),
                   "refused": [b for b in configs.ET_REFUSABLE if rnd.random() < 0.15], "battery": rnd.choice((0, 1, 1))}
        elif fam == "DT":
            cfg = {"family": "DT", "tag": rnd.choice(("DTU", "MSU", "DSN")), "rated": 0, "refused": [], "battery": 0}
        else:
            cfg = {"family": "ES", "tag": "ESU", "rated": 0, "refused": [], "battery": 1, "fw": rnd.choice(("02525", "2225F"))}
        port = 8899 if fam == "ES" else rnd.choice((8899, 502))
        style = rnd.choice(("random", "mixed", "mixed", "sentinel"))
        sim = configs.make_sim(cfg, rnd=rnd, style=style)
        if fam == "ET":
            sim.regs[35303] = rnd.choice((1, 2, 3, 4, 5, 6, 8, rnd.randrange(65536)))       # pv_channel
            sim.regs[35184] = rnd.choice((0, 1, 2, 3, 0xFFFF, cfg["battery"]))
            if rnd.random() < 0.5:
                sim.regs[35140] = rnd.choice((-92, -91, -90, -89, 0, 89, 90, 91)) & 0xFFFF
        res = {}
        host = f"inv{i % 2}"

        async def flow(loop):
            inv = models.family_cls(g, fam)(host, port, 0, 1, 0)
            res["inv"] = inv
            await inv.read_device_info()
            # two-word bitmaps: give their code words contents whose label is non-empty under any reading of "high word, low word"
            res["bitmaps"] = [sn for sn in inv.sensors() if type(sn).__name__ == "EnumBitmap22"]
            for sn in res["bitmaps"]:
                # (not 0xFFFF: an all-ones register is the "undefined" sentinel, read as 0 by design)
                sim.regs[sn.offset] = rnd.choice((0x8421, 0x0001, 0xFFFE, rnd.randrange(1, 65535)))
                sim.regs[sn._offsetL] = rnd.choice((0, 0, 0, 1, 0xFFFE, rnd.randrange(65535)))
            res["polls"] = []
            for _ in range(2):
                try:
                    res["polls"].append(await inv.read_runtime_data())
                except g.InverterError:
                    res["polls"].append(None)
            res["sensors"] = inv.sensors()
            res["single_labels"] = {}
            for sn in res["bitmaps"]:        # the same label asked for on its own
                try:
                    res["single_labels"][sn.id_] = await inv.read_sensor(sn.id_)
                except (ValueError, g.InverterError) as e:
                    res["single_labels"][sn.id_] = e
            if prev is not None:
                try:
                    res["prev_poll"] = await prev["inv"].read_runtime_data()
                except g.InverterError:
                    res["prev_poll"] = None

        peers = {(host, port): sim}
        if prev is not None:
            peers[(prev["host"], prev["port"])] = prev["sim"]
        run = engine.run_custom(peers, flow, vtime_cap=3000, tx_cap=3000)
        part.evaluations += 1
        case = {"e2e": True, "seed": spec["seed"], "i": i}
        if run.stop or run.error is not None:
            part.violate(f"C13/{fam}/end-to-end-failed", f"{cfg} port {port}: {run.stop or repr(run.error)}", case)
            continue

        def z(v):
            return 0 if v is None else v
        # two-word bitmap labels (in the merged result and read singly) against the two code words the inverter holds
        for sn in res.get("bitmaps", ()):
            hv, lv = sim.regs.get(sn.offset, 0), sim.regs.get(sn._offsetL, 0)
            want = rs.bitmap_labels(hv * 65536 + lv, sn._labels)
            prec = rs.bitmap_labels((hv << (16 + lv)) & 0xFFFFFFFF if lv < 64 else 0, sn._labels)
            seen_ = [("read_runtime_data()", d.get(sn.id_)) for d in res["polls"] if d is not None and sn.id_ in d] + \
                    [("read_sensor()", res["single_labels"].get(sn.id_))]
            for how_, got in seen_:
                if isinstance(got, Exception):      # (the id is not offered any more - battery absent; which ids can be read singly is C16's subject)
                    continue
                part.count("end_to_end_bitmap22_labels")
                if got != want:
                    key = f"C13/{fam}/bitmap22/shift-precedence/{sn.id_}" if got == prec else f"C13/{fam}/bitmap22/{sn.id_}"
                    part.violate(key, f"{fam} {cfg.get('tag')} rated={cfg.get('rated')} {how_}: {sn.id_}={got!r} but the code words at {sn.offset} / {sn._offsetL} are "
                                      f"0x{hv:04x} / 0x{lv:04x} (high*65536+low) with the set bits {want!r}", case)
        cur = {"inv": res["inv"], "sim": sim, "fam": fam, "cfg": cfg, "host": host, "port": port, "sensors": res["sensors"]}
        todo = [(cur, d) for d in res["polls"]]
        if prev is not None and res.get("prev_poll") is not None:
            todo.append((prev, res["prev_poll"]))
            part.count("earlier_object_polled_again")
        for who, d in todo:
            if d is None:
                continue
            fam, cfg, sim = who["fam"], who["cfg"], who["sim"]
            res["inv"], res["sensors"] = who["inv"], who["sensors"]
            part.count("end_to_end_results")

            def bad(rel, msg):
                part.violate(f"C13/{fam}/formula/{rel}", f"{fam} {cfg.get('tag')} rated={cfg.get('rated')} read_runtime_data(): {msg}", case)
            if fam == "ET":
                # (string powers that this model does not list are still part of the response: documented reading of their registers)
                allsn = {sn.id_: sn for sn in getattr(res["inv"], "_ET__all_sensors", ())}
                parts = []
                for k in (1, 2, 3, 4):
                    if f"ppv{k}" in d:
                        parts.append(d[f"ppv{k}"])
                    else:
                        sn = allsn[f"ppv{k}"]
                        try:
                            parts.append(rs.ref_value(sn, sim.get_bytes(sn.offset, 2)))
                        except rs.Undecodable:
                            parts.append(None)
                if d["ppv"] != sum(max(0, z(p)) for p in parts):
                    bad("ppv", f"ppv={d['ppv']} but ppv1..4={parts} (pv_channel={d.get('pv_channel')}, ppv_total={d.get('ppv_total')})")
                hc = sum(z(p) for p in parts) + d["pbattery1"] - d["active_power"]
                if d["house_consumption"] != hc:
                    bad("house_consumption", f"house_consumption={d['house_consumption']} but ppv1..4 + pbattery1 - active_power = {hc} "
                                              f"(battery_mode={d.get('battery_mode')})")
                ap = d["active_power"]
                if d["grid_in_out"] != (2 if ap < -90 else (1 if ap >= 90 else 0)):
                    bad("grid_in_out", f"grid_in_out={d['grid_in_out']} but active_power={ap}")
                if "pmppt1" in d:
                    part.count("end_to_end_with_mppt_block")
            elif fam == "DT":
                # (models with fewer strings do not list ppv3: the sum is then not decidable from the result alone)
                if all(k in d for k in ("ppv1", "ppv2", "ppv3")) and d["ppv"] != d["ppv1"] + d["ppv2"] + d["ppv3"]:
                    bad("ppv", f"ppv={d['ppv']} but ppv1+ppv2+ppv3={d['ppv1'] + d['ppv2'] + d['ppv3']}")
                for k, (v, c) in {"ppv1": ("vpv1", "ipv1"), "pgrid1": ("vgrid1", "igrid1")}.items():
                    if all(x in d for x in (k, v, c)) and not rs.round_half_ok(d[k], V10(d[v]) * V10(d[c])):
                        bad(k, f"{k}={d[k]} but {v}={d[v]} x {c}={d[c]}")
            else:
                if d["ppv"] != d["ppv1"] + d["ppv2"]:
                    bad("ppv", f"ppv={d['ppv']} but ppv1+ppv2={d['ppv1'] + d['ppv2']}")
                if d["plant_power"] != z(d["pload"]) + z(d["pback_up"]):
                    bad("plant_power", f"plant_power={d['plant_power']} but pload={d['pload']} + pback_up={d['pback_up']}")
                if d["house_consumption"] != d["ppv1"] + d["ppv2"] + d["pbattery1"] - d["pgrid"]:
                    bad("house_consumption", f"house_consumption={d['house_consumption']} but ppv1+ppv2+pbattery1-pgrid={d['ppv1'] + d['ppv2'] + d['pbattery1'] - d['pgrid']}")
            # labels next to their codes in the merged result
            ids = {}
            for sn in res["sensors"]:
                ids.setdefault(sn.id_, sn)
            for sn in res["sensors"]:
                if type(sn).__name__ in ("Enum", "EnumH", "EnumL", "Enum2") and sn.id_.endswith("_label") and sn.id_[:-6] in d and sn.id_ in d:
                    part.count("end_to_end_labels")
                    if d[sn.id_] != sn._labels.get(d[sn.id_[:-6]]):
                        part.violate(f"C13/{fam}/label/{sn.id_}", f"{fam} read_runtime_data(): {sn.id_}={d[sn.id_]!r} but {sn.id_[:-6]}={d[sn.id_[:-6]]!r}", case)
        part.see(f"e2e|{fam}|{cfg.get('tag')}|{cfg.get('rated')}|{style}")
        prev = cur


def plan(tier, seed):
    nsh = 8 if tier == "quick" else 16
    specs = [{"mode": "labels", "seed": f"{seed}:C13:L:{i}", "full": tier != "quick", "shards": nsh, "shard": i} for i in range(nsh)]
    for i in range(4 if tier == "quick" else 16):
        specs.append({"mode": "formulas", "seed": f"{seed}:C13:F:{i}", "n": 800 if tier == "quick" else 8000,
                      "hv_stride": 4 if tier == "quick" else 16, "hv_phase": i})
    for i in range(4 if tier == "quick" else 16):
        specs.append({"mode": "e2e", "seed": f"{seed}:C13:E:{i}", "n": 40 if tier == "quick" else 1500})
    return specs


def run_shard(spec):
    part = Part()
    if spec["mode"] == "labels":
        check_labels(spec, part)
        part.sample({"mode": "labels", "evaluations": part.evaluations, "counters": dict(part.counters)})
    elif spec["mode"] == "e2e":
        check_e2e(spec, part)
    else:
        check_formulas(spec, part)
    return part


def replay(case):
    g = env.goodwe()
    part = Part()
    if case.get("e2e"):
        check_e2e({"seed": case["seed"], "n": case["i"] + 1}, part)
        return [{"key": v["key"], "msg": v["msg"]} for v in part.violations]
    if case.get("formula"):
        MR = g.inverter.Inverter._map_response
        fam = case["family"]
        for block in blocks.family_blocks(g, fam, case["port"]):
            if block["name"] in ("running", "runtime"):
                d = MR(blocks.fast_response(g, block, bytes.fromhex(case["payload"])), block["sensors"])
                print({k: d[k] for k in list(d)[:12]})
        check_formulas({"seed": "replay", "n": 1}, Part())
        return [{"key": "C13/see-evidence", "msg": "formula case printed; re-run the check for the verdict"}]
    check_labels({"seed": "replay", "full": False, "shards": 1, "shard": 0}, part)
    return [{"key": v["key"], "msg": v["msg"]} for v in part.violations if case.get("label") in v["msg"]]
