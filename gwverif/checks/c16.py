"""C16  Reading a single sensor gives the same value as the bulk read (exploration)."""
from __future__ import annotations

import math
import random

from .. import configs, engine, env, models
from ..runner import Part

PROPERTY = "C16"
LEVEL = "exploration"
RULE = ("for model configuration classes (tags per predicate class x rated power x refused-block subsets x battery) and random / "
        "sentinel / boundary register contents: read_device_info(), bulk = read_runtime_data(), then read_sensor(id) for EVERY id "
        "of sensors() on the unchanged register file of a simulated inverter (UDP and TCP); plus histories in which capabilities "
        "change between the calls (battery appears / disappears, a block becomes refused or - after refused single reads - served, read_device_info() re-run; settings of the same id read before the sensor): "
        "after each change every listed id is read again; distinct = distinct (family, configuration, history step, content style)")
ASSUMPTIONS = ["equality is NaN-aware; where the bulk read reports None the single read may return None or raise ValueError",
               "ids listed twice in a table (ET meter_e_total_exp/imp: float and 8-byte variants) resolve to the later definition in "
               "both paths"]
MUST = ["answers_padded_with_stray_bytes", "history_concurrent_reads", "firmware_version_variants", "history_slow_first_answer", "impossible_clock_contents", "ids_compared", "calculated_ids_compared", "bitmap_ids_compared", "four_byte_meter_ids_compared", "none_in_bulk",
        "history_battery_appears", "history_block_refused_later", "history_device_info_rerun", "history_block_served_later",
        "history_battery_disappears", "configs_run"]
EXHAUSTIVE = {"quick": False, "thorough": False}


def eq(a, b):
    if isinstance(a, float) and isinstance(b, float) and math.isnan(a) and math.isnan(b):
        return True
    return a == b and type(a) is type(b) or a == b


async def compare_all(g, inv, part, fam, tag, case, step):
    bulk = await inv.read_runtime_data()
    ids = [s for s in inv.sensors()]
    for sn in ids:
        sid = sn.id_
        want = bulk.get(sid, "<missing>")
        try:
            got = await inv.read_sensor(sid)
            err = None
        except ValueError as e:
            got, err = None, e
        except NotImplementedError as e:
            part.violate(f"C16/{fam}/NotImplementedError/{type(sn).__name__}",
                         f"{tag} [{step}]: read_sensor('{sid}') raised NotImplementedError ({type(sn).__name__})", case)
            continue
        except Exception as e:      # noqa
            part.violate(f"C16/{fam}/raises/{type(e).__name__}", f"{tag} [{step}]: read_sensor('{sid}') raised {type(e).__name__}: {str(e)[:80]}", case)
            continue
        part.count("ids_compared")
        tn = type(sn).__name__
        if tn in ("Calculated", "EnumCalculated"):
            part.count("calculated_ids_compared")
        if tn in ("EnumBitmap4", "EnumBitmap22"):
            part.count("bitmap_ids_compared")
        if tn in ("Apparent4", "Reactive4"):
            part.count("four_byte_meter_ids_compared")
        if want is None:
            part.count("none_in_bulk")
        if err is not None:
            if "Unknown sensor" in str(err):
                part.violate(f"C16/{fam}/unknown-sensor-for-listed-id", f"{tag} [{step}]: read_sensor('{sid}') -> {err} although sensors() lists it", case)
            elif want is not None:
                part.violate(f"C16/{fam}/valueerror-but-bulk-has-value/{tn}", f"{tag} [{step}]: read_sensor('{sid}') raised ValueError({err}) but the bulk read reports {want!r}", case)
        elif not eq(got, want):
            # (apparent_power2/3 of the ET MPPT block lie outside the fetched bulk window - the C14 known finding - so the bulk
            #  value is decoded from missing bytes while the single read fetches the real registers)
            key = f"C16/{fam}/value-differs/{tn}"
            if fam == "ET" and sid in ("apparent_power2", "apparent_power3"):
                key = f"C16/ET/value-differs/outside-mppt-window/{sid}"
            part.violate(key,
                         f"{tag} [{step}]: read_sensor('{sid}') = {got!r} but read_runtime_data()['{sid}'] = {want!r} ({tn}@{sn.offset})", case)
    return bulk


def run_cfg(cfg, part, port, seed, history=None):
    g = env.goodwe()
    rnd = random.Random(seed)
    style = rnd.choice(("random", "mixed", "sentinel", "random", "ff", "zero", "smallconst"))
    sim = configs.make_sim(cfg, rnd=rnd, style=style)
    fam = cfg["family"]
    clock = rnd.choice((None, None, bytes(6), bytes([24, 13, 1, 0, 0, 0]), bytes([24, 2, 30, 12, 0, 0]), bytes([24, 5, 17, 24, 0, 0]),
                        bytes([24, 5, 32, 1, 1, 1]), b"\xff" * 6, bytes([24, 5, 17, 12, 60, 0])))
    if clock is not None and fam in ("ET", "DT"):
        # an inverter whose clock was never set / holds an impossible date: the bulk read reports None, the single read raises ValueError
        sim.set_bytes(35100 if fam == "ET" else 30100, clock)
        part.count("impossible_clock_contents")
        style += " clock=" + clock.hex()
    if port == 8899 and fam in ("ET", "DT") and rnd.random() < 0.25:
        # firmware that appends a few stray bytes to every read answer (tolerated by the validators on purpose): single and bulk reads agree all the same
        sim.stray = rnd.choice((b"\x00", b"\xab\xcd", b"\xff\xff\xff", b"\x00\x00\x00\x00\x00"))
        style += " stray=" + sim.stray.hex()
        part.count("answers_padded_with_stray_bytes")
    tag = f"{fam} {cfg['tag']} rated={cfg['rated']} refused={cfg['refused']} battery={cfg['battery']} fw={cfg.get('fw_versions')} port={port} {style}"
    case = {"config": cfg, "port": port, "seed": seed, "history": history}

    async def flow(loop):
        inv = models.family_cls(g, fam)("inv0", port, 0, 1, 0)
        await inv.read_device_info()
        if history == "block_served_later" and fam in ("ET", "DT"):
            # single reads of listed ids are refused first (battery / meter registers not available yet), later they are served
            blk, rep = ("battery", "battery_soc") if fam == "ET" else ("meter", "meter_active_power")
            rng = (models.ET_BLOCKS if fam == "ET" else models.DT_BLOCKS)[blk]
            sim.refused += rng
            if fam == "ET":
                sim.regs[35184] = 2
            for sid in [x.id_ for x in inv.sensors() if rng[0][0] <= x.offset <= rng[0][1]][:4]:
                try:
                    await inv.read_sensor(sid)
                except ValueError:
                    pass
            sim.refused = [r for r in sim.refused if r not in rng]
            part.count("history_block_served_later")
        try:
            await inv.read_runtime_data()        # let the capability fallbacks settle
        except g.exceptions.RequestRejectedException:
            pass
        if fam != "ES":
            # ids that exist both as a setting and as a sensor (different registers): a setting read first must not redirect the sensor read
            for sid in ("work_mode", "battery_modules"):
                try:
                    await inv.read_setting(sid)
                except (ValueError, g.InverterError):
                    pass
        await compare_all(g, inv, part, fam, tag, case, "steady")
        if history == "battery_disappears" and fam == "ET" and cfg["battery"]:
            listed = [x.id_ for x in inv.sensors()]
            sim.regs[35184] = 0
            for sid in listed:
                if not sid.startswith("battery"):
                    continue
                try:
                    await inv.read_sensor(sid)
                except ValueError:
                    pass
                except Exception as e:      # noqa
                    part.violate(f"C16/{fam}/raises/{type(e).__name__}", f"{tag} [battery disappeared]: read_sensor('{sid}') (listed before) raised {type(e).__name__}: {str(e)[:60]}", case)
                    break
            part.count("history_battery_disappears")
        if history == "battery_appears" and fam == "ET":
            sim.regs[35184] = 0
            await inv.read_runtime_data()
            await inv.read_sensor("vpv1")
            sim.regs[35184] = 2
            await compare_all(g, inv, part, fam, tag, case, "battery appeared")
            part.count("history_battery_appears")
        elif history == "block_refused_later" and fam in ("ET", "DT"):
            blk = "mppt" if fam == "ET" else "meter"
            rng = (models.ET_BLOCKS if fam == "ET" else models.DT_BLOCKS)[blk]
            sim.refused += rng
            for _ in range(2):
                try:
                    await inv.read_runtime_data()
                except g.exceptions.RequestRejectedException:
                    pass
            await compare_all(g, inv, part, fam, tag, case, "block refused later")
            part.count("history_block_refused_later")
        elif history == "slow_first_answer" and fam in ("ET", "DT") and port == 8899:
            # an inverter that answers the FIRST transmission of every request 1.2 timeouts late and the retransmission at once; a fresh
            # object with the library's default connection handling and one retry: every single read is served on its retransmission
            # while the late answer of the previous read is still on its way
            inv2 = models.family_cls(g, fam)("inv0", port, 0, 1, 1)
            await inv2.read_device_info()
            for _ in range(2):          # let the capability fallbacks of the fresh object settle
                try:
                    await inv2.read_runtime_data()
                except g.exceptions.RequestRejectedException:
                    pass
            st_ = {"last": None}
            orig_on = sim.on_request

            def on_request(s_, kind, frame, n, _o=orig_on):
                first = bytes(frame) != st_["last"]
                st_["last"] = bytes(frame)
                sim.delay = 1.2 if first else 0.0
                try:
                    return _o(s_, kind, frame, n)
                finally:
                    sim.delay = 0.0
            sim.on_request = on_request
            await compare_all(g, inv2, part, fam, tag, case, "first answers late")
            sim.on_request = orig_on
            part.count("history_slow_first_answer")
        elif history == "concurrent_reads":
            # single reads of listed ids issued WHILE a poll of the same object is under way (the inverter takes 50 ms per answer): the
            # object's lock serialises the requests; a listed id stays known and reads the same value (registers unchanged)
            import asyncio
            sim.delay = 0.05
            listed = [x.id_ for x in inv.sensors()]
            pick = [x for x in listed if x.startswith(("battery", "meter", "pmppt", "vpv"))]
            rnd.shuffle(pick)
            # (calculated values and bitmap labels first: their single read runs a whole poll of its own while the others queue behind it)
            calc_ = [x.id_ for x in inv.sensors() if type(x).__name__ in ("Calculated", "EnumCalculated", "EnumBitmap4", "EnumBitmap22")]
            rnd.shuffle(calc_)
            pick = calc_[:3] + pick[:14]
            got_ = {}

            async def single(sid, off):
                await asyncio.sleep(off)
                try:
                    got_[sid] = ("ok", await inv.read_sensor(sid))
                except ValueError as e:
                    got_[sid] = ("ValueError", str(e))
                except Exception as e:      # noqa
                    got_[sid] = (type(e).__name__, str(e)[:80])
            bulk_, *_ = await asyncio.gather(inv.read_runtime_data(), *[single(sid, 0.01 + 0.03 * k) for k, sid in enumerate(pick)])
            sim.delay = 0.0
            for sid in pick:
                how, val = got_.get(sid, ("missing", None))
                part.count("ids_read_during_a_poll")
                want_ = bulk_.get(sid, "<missing>")
                if how == "ValueError" and "Unknown sensor" in str(val):
                    part.violate(f"C16/{fam}/unknown-sensor-for-listed-id", f"{tag} [during a poll]: read_sensor('{sid}') -> {val} although sensors() lists it", case)
                elif how not in ("ok", "ValueError"):
                    part.violate(f"C16/{fam}/raises/{how}", f"{tag} [during a poll]: read_sensor('{sid}') raised {how}: {val}", case)
                elif how == "ok" and not eq(val, want_) and sid not in ("apparent_power2", "apparent_power3"):
                    part.violate(f"C16/{fam}/value-differs/during-poll", f"{tag}: read_sensor('{sid}') issued during a poll = {val!r}, the poll reports {want_!r}", case)
            part.count("history_concurrent_reads")
        elif history == "device_info_rerun":
            await inv.read_sensor(inv.sensors()[1].id_)
            if fam == "ET":
                sim.regs.update(models.sims.et_device_info(configs.serial_for("EHU"), 5000))
            await inv.read_device_info()
            try:
                await inv.read_runtime_data()
            except g.exceptions.RequestRejectedException:
                pass
            await compare_all(g, inv, part, fam, tag, case, "read_device_info re-run")
            part.count("history_device_info_rerun")

    run = engine.run_custom({("inv0", port): sim}, flow, vtime_cap=5000, tx_cap=20000)
    part.evaluations += 1
    part.count("configs_run")
    if run.stop or run.error is not None:
        part.violate(f"C16/{fam}/run-failed/{type(run.error).__name__ if run.error else 'hang'}", f"{tag} history={history}: {run.stop or repr(run.error)[:160]}", case)
    part.see(f"{fam}|{cfg['tag']}|{cfg['rated']}|{tuple(cfg['refused'])}|{cfg['battery']}|{port}|{history}|{style}")
    if part.evaluations % 53 == 1:
        part.sample({"config": cfg, "port": port, "history": history, "style": style, "ids_compared_so_far": part.counters.get("ids_compared")})


def plan(tier, seed):
    n = 16
    return [{"shard": i, "shards": n, "tier": tier, "seed": seed} for i in range(n)]


def run_shard(spec):
    g = env.goodwe()
    part = Part()
    tier = spec["tier"]
    rnd = random.Random(f"{spec['seed']}:C16:plan")
    cfgs = []
    for cfg in configs.et_configs(g, "quick" if tier == "quick" else "thorough"):
        # sample the refusal subsets (all subsets are C15's job); keep every tag class x power x battery
        if len(cfg["refused"]) <= 1 or rnd.random() < (0.03 if tier == "quick" else 0.25):
            cfgs.append(cfg)
    cfgs += list(configs.dt_configs(g, tier)) + list(configs.es_configs(g, tier))[:8]
    if tier == "quick":
        cfgs = [c for i, c in enumerate(cfgs) if c["family"] != "ET" or i % 2 == 0]
    fwv = configs.firmware_variants()          # firmware dimension: each configuration runs with one (DSP1, DSP2, ARM) version triple
    for i, cfg in enumerate(cfgs):
        if cfg["family"] in ("ET", "DT"):
            cfg = dict(cfg, fw_versions=fwv[(i * 5 + env.seed()) % len(fwv)])
            if cfg["fw_versions"] is not None:
                part.count("firmware_version_variants")

        if i % spec["shards"] != spec["shard"]:
            continue
        port = 8899 if cfg["family"] == "ES" else (502 if i % 3 == 0 else 8899)
        hist = [None, "battery_appears", "block_refused_later", "device_info_rerun", "block_served_later", "battery_disappears",
                "slow_first_answer", "concurrent_reads"][i % 8] if cfg["family"] != "ES" else None
        if hist == "slow_first_answer":
            port = 8899
        run_cfg(cfg, part, port, f"{spec['seed']}:C16:{i}", hist)
        if cfg["family"] == "DT" and hist != "concurrent_reads":
            # (the DT configurations are few: each of them also gets the overlapping-calls history)
            run_cfg(cfg, part, port, f"{spec['seed']}:C16:{i}:c", "concurrent_reads")
    return part


def replay(case):
    part = Part()
    run_cfg(case["config"], part, case["port"], case["seed"], case.get("history"))
    return [{"key": v["key"], "msg": v["msg"]} for v in part.violations]
