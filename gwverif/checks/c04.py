"""C04  Every request terminates after at most retries+1 transmissions (fault_enumeration).

Events: wire log (tx times and bytes, deliveries, opens/closes, connect attempts) + call/return of one
request issued through Inverter._read_from_socket on the virtual clock; the HANG / RUNAWAY detectors.
Oracle: see check_run().
"""
from __future__ import annotations

import errno
import itertools
import random

from .. import engine
from ..runner import Part

PROPERTY = "C04"
LEVEL = "fault_enumeration"
RULE = ("one request per scenario against a scripted peer on the virtual clock; scenarios = every fault script over a "
        "16-symbol alphabet up to depth retries+1 (exhaustive) x {udp-rtu, tcp} x keep-alive x (T, R) grid, the public entry points (read_sensor / write_setting / send_command) and objects obtained from connect() without a family, requests around the transaction-id wrap, TCP connect "
        "outcome scripts, AA55 framing scripts, a silent request after a request under every fault script (at once and 0.4 T later), a stale corrupted datagram arriving while idle at 8 arrival phases, a stale first fragment arriving while idle followed 0 / 0.3 / 0.7 / 1 timeouts later by a silent request, every truncation length of the answer (0 bytes .. frame minus one; once or on every attempt) for the three framings, random deeper multi-request histories with random arrival phase of every peer send (thorough: the exhaustive part again with sends deferred by 2 / 5 loop iterations); distinct = distinct "
        "(transport, keep-alive, R, outcome, #tx, event-kind trace) tuples")
ASSUMPTIONS = [
    "AF_UNIX socketpairs stand in for UDP/TCP sockets (synchronous in-kernel delivery); OS errors are injected at the "
    "send/recv syscall boundary of the real asyncio transports",
    "virtual clock: asyncio timers fire in deadline order exactly as on a real clock; wall time is only a watchdog",
    "one caller at a time (concurrency is C06)",
]
MUST = ["family_object_budget_silent", "aa55_answers_with_wrapping_checksum", "silent_request_after_failed_endpoint", "silent_request_after_failed_connections", "stale_answer_while_next_request_in_flight", "requests_around_transaction_id_wrap", "stale_fragment_while_idle", "auto_detected_object_silent", "public_entry_points", "truncated_answer", "stale_datagram_while_idle", "retry_branch", "max_retries_branch", "fragment_rearm", "immediate_retry_invalid", "tcp_connect_error",
        "connect_hang_bounded", "silent_exact", "success", "rejected"]
EXHAUSTIVE = {"quick": True, "thorough": True}

ALPHA = ["drop", "now", "intime", "late", "garbage", "short", "badsum", "baddup", "badnow", "exc", "exc9", "frag2", "frag1", "dup",
         "close", "closelate", "senderr", "reset", "unreachlate"]
SYMS = {"reset": ("reset", 0.0), "unreachlate": None}     # resolved per T in expand()
CONNECT = ["ok", "refused", "unreach", "hang"]


def expand(sym, T):
    if sym == "unreachlate":
        return ("rxerr", errno.EHOSTUNREACH, 0.5 * T)
    if sym == "reset":
        return ("reset", 0.0)
    if sym == "exc9":           # exception answer with a code the Modbus table leaves undefined
        return ("exc", 9)
    return sym


def scenario(transport, framing, ka, T, R, script, connect=(), nreq=1, family=None):
    peer_script = [expand(s, T) for s in script if s != "senderr"]
    faults = {str(i + 1): errno.ENETUNREACH for i, s in enumerate(script) if s == "senderr"}
    if framing == "aa55":
        steps = [["aa55", "010600", "0186"] for _ in range(nreq)]
    else:
        steps = [["read", 100 + i, 2] for i in range(nreq)]
    sc = {"transport": transport, "framing": framing, "keep_alive": ka, "T": T, "R": R, "script": peer_script,
          "fullscript": list(script), "send_faults": faults, "connect": list(connect), "after": "drop",
          "tasks": [{"start": 0.0, "steps": steps}]}
    if family:
        sc["family"] = family
    return sc


def scenario_then_silent(transport, framing, ka, T, R, script, gap=0.0, connect=()):
    """request 1 under `script` (TCP: after the connection outcomes `connect`), then (after `gap`) request 2 against a silent peer
    (scripts keyed by register)."""
    steps = [["read", 100, 2]] + ([["sleep", gap]] if gap else []) + [["read", 101, 2]]
    return {"transport": transport, "framing": framing, "keep_alive": ka, "T": T, "R": R,
            "by_reg": {100: [expand(s, T) for s in script], 101: []}, "after": "drop", "fullscript": list(script) + [f"gap={gap}"] + [f"connect={list(connect)}"] * bool(connect),
            "then_silent": True, "send_faults": {}, "connect": list(connect),
            "tasks": [{"start": 0.0, "steps": steps}]}


def scenario_idle_garbage(transport, framing, ka, T, R, D, hops=0):
    """request 1 is answered at once; a corrupted copy of that answer arrives D later, exactly when the caller (who slept D) issues
    request 2, which meets a silent peer: the stale datagram must not cost request 2 a transmission."""
    return {"transport": transport, "framing": framing, "keep_alive": ka, "T": T, "R": R,
            "by_reg": {100: [["nowbad", D, hops]], 101: []}, "after": "drop", "fullscript": [["nowbad", D, hops]],
            "then_silent": True, "send_faults": {}, "connect": [],
            "tasks": [{"start": 0.0, "steps": [["read", 100, 2], ["sleep", D], ["read", 101, 2]]}]}


def scenario_idle_fragment(transport, framing, ka, T, R, D, gap, hops=0):
    """request 1 is answered at once; a lone FIRST FRAGMENT of that answer arrives D later (idle socket); request 2 starts `gap` after that
    and meets a silent peer: whatever the fragment left behind (buffer, timer) must not cost or shorten request 2's transmissions."""
    return {"transport": transport, "framing": framing, "keep_alive": ka, "T": T, "R": R,
            "by_reg": {100: [["nowfrag", D, hops]], 101: []}, "after": "drop", "fullscript": [["nowfrag", D, hops], f"gap={gap}"],
            "then_silent": True, "send_faults": {}, "connect": [],
            "tasks": [{"start": 0.0, "steps": [["read", 100, 2], ["sleep", D + gap], ["read", 101, 2]]}]}


def scenario_stale_answer_in_flight(transport, framing, ka, T, R, gap, x, count2):
    """request 1 is answered at once and an exact duplicate of that answer arrives `x` after request 2 (issued `gap` later, `count2` registers
    from the next address) was transmitted; request 2's own answers are all lost.  Whether the duplicate is taken as the answer (same shape)
    or refused, request 2 must still end within its bounds."""
    return {"transport": transport, "framing": framing, "keep_alive": ka, "T": T, "R": R,
            "by_reg": {100: [["nowdup", gap + x]], 101: []}, "after": "drop", "fullscript": [["nowdup", gap + x], f"gap={gap}", f"count2={count2}"],
            "then_silent": True, "send_faults": {}, "connect": [],
            "tasks": [{"start": 0.0, "steps": [["read", 100, 2], ["sleep", gap], ["read", 101, count2]]}]}


def _strip_tx(sc, data: bytes):
    return data[2:] if sc["framing"] == "tcp" else data


def check_run(sc, run, part: Part = None):
    """The C04 oracle over one recorded run.  Returns a list of (key, message)."""
    T, R = sc["T"], sc["R"]
    tr = sc["transport"]
    out = []
    if run.stop:
        out.append((f"C04/{tr}/{'hang' if run.stop.startswith('HANG') else 'runaway'}", run.stop))
        return out
    eps = 1e-6
    for rec in run.calls:
        if rec["step"][0] in ("sleep", "close", "arm_send_fault", "peerdrop"):
            continue
        evs = engine.events_of_call(run, rec["id"])
        txs = [e for e in evs if e[1] == "tx"]
        deliveries = [e for e in evs if e[1] in ("rx", "rxerr", "eof")]
        conns = [e for e in evs if e[1] == "connect"]
        peers = [e for e in evs if e[1] == "peer"]
        if len(txs) > R + 1:
            out.append((f"C04/{tr}/excess-transmissions",
                        f"{len(txs)} transmissions with retries={R} (script {sc.get('fullscript')})"))
        if len({_strip_tx(sc, e[4]) for e in txs}) > 1:
            out.append((f"C04/{tr}/retransmission-differs", "transmissions of one request are not identical"))
        if rec["outcome"] not in ("ok", "RequestRejectedException", "RequestFailedException"):
            out.append((f"C04/{tr}/ends-with-other-exception/{rec['outcome']}",
                        f"request ended with {rec['outcome']} ({rec.get('msg', '')[:60]}) instead of a response, RequestRejectedException or "
                        f"RequestFailedException (script {sc.get('fullscript')})"))
        # completion bound: one timeout after the last event of the final attempt
        last = rec["t0"]
        for e in txs + deliveries:
            last = max(last, e[0])
        for e in conns:
            last = max(last, e[0] + e[4] + (5.0 if e[3] == "hang" else 0.0))
        if rec["t1"] > last + T + eps:
            out.append((f"C04/{tr}/ends-too-late",
                        f"request ended at {rec['t1']}, later than last event {last} + timeout {T}"))
        # a hanging connect must be abandoned after 5 s
        for e in conns:
            if e[3] == "hang":
                nxt = [x for x in evs if x[0] > e[0] + eps] or [(rec["t1"],)]
                if nxt[0][0] > e[0] + 5.0 + eps:
                    out.append((f"C04/{tr}/connect-not-bounded", f"connect attempt at {e[0]} still pending at {nxt[0][0]}"))
                elif part:
                    part.count("connect_hang_bounded")
        # silent inverter: exactly R+1 identical transmissions spaced T, failure one T after the last
        full = sc.get("fullscript", [])
        silent = all(s == "drop" for s in full[:R + 1]) and len(full) >= R + 1 and \
            all(c == "ok" or (isinstance(c, (list, tuple)) and c[0] == "ok") for c in sc.get("connect", [])) and \
            len(run.calls) == 1 and not sc.get("send_faults")
        if sc.get("then_silent"):
            # (a stale datagram delivered while request 2 is in flight counts as its - corrupted - answer: not silent then)
            silent = rec["step"][0] == "read" and rec["step"][1] == 101 and not deliveries and all(e[3] == "ok" for e in conns)
        if silent:
            want = [round(rec["t0"] + k * T, 9) for k in range(R + 1)]
            got = [e[0] for e in txs]
            ok = len(got) == len(want) and all(abs(a - b) < eps for a, b in zip(got, want))
            if not ok:
                out.append((f"C04/{tr}/silent-spacing", f"silent peer: transmissions at {got}, expected {want}"))
            elif abs(rec["t1"] - (rec["t0"] + (R + 1) * T)) > eps:
                out.append((f"C04/{tr}/silent-failure-time",
                            f"silent peer: failure reported at {rec['t1']}, expected {rec['t0'] + (R + 1) * T}"))
            elif rec["outcome"] != "RequestFailedException":
                out.append((f"C04/{tr}/silent-outcome", f"silent peer: outcome {rec['outcome']}"))
            elif part:
                part.count("silent_exact")
        if part:
            if len(txs) > 1:
                part.count("retry_branch")
            if rec["outcome"] == "RequestFailedException" and "even after" in rec.get("msg", ""):
                part.count("max_retries_branch")
            if rec["outcome"] == "ok":
                part.count("success")
            if rec["outcome"] == "RequestRejectedException":
                part.count("rejected")

            if any(c[3] != "ok" for c in conns):
                part.count("tcp_connect_error")
            for p in peers:
                s = p[4] if isinstance(p[4], str) else p[4][0]
                if s in ("frag1", "frag2"):
                    part.count("fragment_rearm")
                if s in ("garbage", "badsum", "short") and tr == "udp":
                    part.count("immediate_retry_invalid")
    return out


def trace_key(sc, run):
    kinds = tuple(e[1] for e in run.events if e[1] in ("tx", "rx", "rxerr", "eof", "open", "close", "connect", "txerr"))
    return (sc["transport"], sc["framing"], bool(sc["keep_alive"]), sc["R"],
            tuple(c["outcome"] for c in run.calls), kinds)


def run_case(sc, part: Part):
    run = engine.run_scenario(sc)
    part.evaluations += 1
    vs = check_run(sc, run, part)
    part.see(repr(trace_key(sc, run)))
    for key, msg in vs:
        part.violate(key, msg, {"scenario": sc, "calls": run.calls, "events": engine.jsonable_events(run.events, 120)})
    if len(part.samples) < 4 and len(sc.get("fullscript", [])) >= 2 and part.evaluations % 97 == 3:
        part.sample({"scenario": {k: sc[k] for k in ("transport", "framing", "keep_alive", "T", "R", "fullscript", "connect")},
                     "calls": [{k: c.get(k) for k in ("outcome", "t0", "t1", "msg")} for c in run.calls],
                     "trace": [[e[0], e[1]] + ([e[4].hex()] if e[1] in ("tx", "rx") else []) for e in run.events
                               if e[1] in ("tx", "rx", "rxerr", "eof", "connect", "open", "close")][:30]})
    return run, vs


# ---- plan ------------------------------------------------------------------------------------------
def plan(tier, seed):
    specs = []
    grids = [(1, 0), (1, 1), (1, 2)] if tier == "quick" else [(1, 0), (1, 1), (1, 2), (1, 3)]
    for transport, framing in (("udp", "rtu"), ("tcp", "tcp")):
        for ka in (False, True):
            for T, R in grids:
                n = len(ALPHA) ** (R + 1)
                chunks = 1 if n <= 4096 else 16
                for c in range(chunks):
                    specs.append({"mode": "exhaustive", "transport": transport, "framing": framing, "ka": ka, "T": T,
                                  "R": R, "chunk": c, "chunks": chunks})
            for T, R in ((0.25, 1), (3, 1), (2.5, 0)) if tier == "quick" else ((0.25, 2), (3, 2), (2.5, 1), (0.1, 1)):
                specs.append({"mode": "exhaustive", "transport": transport, "framing": framing, "ka": ka, "T": T,
                              "R": R, "chunk": 0, "chunks": 1})
    if tier != "quick":         # the same enumeration with every peer send deferred by 2 / 5 loop iterations
        for transport, framing in (("udp", "rtu"), ("tcp", "tcp")):
            for ka in (False, True):
                for hops in (2, 5):
                    for T, R in ((1, 1), (1, 2)):
                        specs.append({"mode": "exhaustive", "transport": transport, "framing": framing, "ka": ka, "T": T, "R": R,
                                      "chunk": 0, "chunks": 1, "hops": hops})
    # a silent request AFTER a request that went through any fault script (the budget must be whole again)
    for transport, framing in (("udp", "rtu"), ("tcp", "tcp")):
        for ka in (False, True):
            for R in ((1, 2) if tier == "quick" else (1, 2, 3)):
                specs.append({"mode": "then_silent", "transport": transport, "framing": framing, "ka": ka, "T": 1, "R": R})
    # AA55 framing over UDP (ES family commands)
    for ka in (False, True):
        specs.append({"mode": "exhaustive", "transport": "udp", "framing": "aa55", "ka": ka, "T": 1,
                      "R": 1 if tier == "quick" else 2, "chunk": 0, "chunks": 1})
        # ... and with answers whose bytes add up to more than 0xFFFF (255 payload bytes of 0xFF: the 16-bit checksum wraps)
        specs.append({"mode": "exhaustive", "transport": "udp", "framing": "aa55", "ka": ka, "T": 1, "R": 1, "chunk": 0, "chunks": 1,
                      "aa55_payload": "ff" * 255})
    # every truncation length of the answer, as a lone datagram / segment (0 bytes .. whole frame minus one)
    for transport, framing in (("udp", "rtu"), ("tcp", "tcp"), ("udp", "aa55")):
        for ka in (False, True):
            specs.append({"mode": "truncation", "transport": transport, "framing": framing, "ka": ka, "T": 1,
                          "Rs": (0, 1) if tier == "quick" else (0, 1, 2, 3)})
    # the same through the public entry points of the inverter object (read_sensor / write_setting 'modbus-N', send_command)
    for transport, framing in (("udp", "rtu"), ("tcp", "tcp")):
        specs.append({"mode": "entries", "transport": transport, "framing": framing, "T": 1, "R": 1 if tier == "quick" else 2})
    # TCP connect outcome scripts
    for ka in (False, True):
        specs.append({"mode": "connect", "ka": ka, "depth": 3 if tier == "quick" else 4})
    # random deeper multi-request histories
    nrand = 8 if tier == "quick" else 96
    for i in range(nrand):
        specs.append({"mode": "random", "seed": f"{seed}:C04:{i}", "n": 300 if tier == "quick" else 6000})
    return specs


def run_shard(spec):
    part = Part()
    mode = spec["mode"]
    if mode == "exhaustive":
        alpha = [s for s in ALPHA if not (spec["framing"] == "aa55" and s in ("exc", "exc9"))]
        scripts = itertools.product(alpha, repeat=spec["R"] + 1)
        for i, script in enumerate(scripts):
            if i % spec["chunks"] != spec["chunk"]:
                continue
            sc = scenario(spec["transport"], spec["framing"], spec["ka"], spec["T"], spec["R"], list(script))
            sc["hops"] = spec.get("hops", 0)
            if spec.get("aa55_payload"):
                sc["aa55_payload"] = spec["aa55_payload"]
                part.count("aa55_answers_with_wrapping_checksum")
            run_case(sc, part)
    elif mode == "then_silent":
        # (no symbol that can deliver something AFTER request 1 has ended: without a correlation id a late or
        #  duplicated answer is legitimately taken as the answer to request 2, which is then not silent)
        alpha = [s for s in ALPHA if s not in ("senderr", "late", "dup")]
        R = spec["R"]
        for d in range(1, min(R + 1, 3) + 1):
            for script in itertools.product(alpha, repeat=d):
                run_case(scenario_then_silent(spec["transport"], spec["framing"], spec["ka"], spec["T"], R, list(script)), part)
                if d == 1 or script[-1] in ("now", "intime", "exc", "frag2"):
                    # request 2 starts 0.4 T after request 1 ended: a timer left armed by request 1 would now fire inside it
                    run_case(scenario_then_silent(spec["transport"], spec["framing"], spec["ka"], spec["T"], R, list(script),
                                                  gap=0.4 * spec["T"]), part)
        if spec["transport"] == "tcp":
            # request 1 never gets a connection (every attempt of its budget fails, or all but the last), request 2 connects and meets silence
            for outcome in ("refused", "unreach", "timeout", "hostunreach"):
                for nfail in (R + 1, R, 1):
                    for script in (["now"], ["drop", "now"]):
                        run_case(scenario_then_silent("tcp", "tcp", spec["ka"], spec["T"], R, script, connect=[outcome] * nfail), part)
                        part.count("silent_request_after_failed_connections")
                # ... or request 1 connects, its transmission is lost and the RE-connection for the retransmission fails
                for pattern in (["ok", outcome], ["ok", outcome, outcome], ["ok", "ok", outcome], ["ok", outcome, "ok"]):
                    run_case(scenario_then_silent("tcp", "tcp", spec["ka"], spec["T"], R, ["drop", "drop", "now"], connect=pattern), part)
                    part.count("silent_request_after_failed_connections")
        if spec["transport"] == "udp":
            # the datagram endpoint of request 1 cannot be opened (no route / packet filter), request 2 meets a silent inverter
            for outcome in ("unreach", "perm"):
                for nfail in (1, 2):
                    for script in (["now"], ["drop", "now"]):
                        run_case(scenario_then_silent("udp", spec["framing"], spec["ka"], spec["T"], R, script, connect=[outcome] * nfail), part)
                        part.count("silent_request_after_failed_endpoint")
                # ... or the endpoint opens, the transmission is lost and the socket cannot be REopened for the retransmission
                for pattern in (["ok", outcome], ["ok", "ok", outcome], ["ok", outcome, "ok"]):
                    run_case(scenario_then_silent("udp", spec["framing"], spec["ka"], spec["T"], R, ["drop", "drop", "now"], connect=pattern), part)
                    part.count("silent_request_after_failed_endpoint")
        for D in (0.0, 0.5, 1.0, 2.5):
            for hops in range(0, 8):        # arrival phase of the stale datagram relative to the caller's wake-up
                run_case(scenario_idle_garbage(spec["transport"], spec["framing"], spec["ka"], spec["T"], R, D * spec["T"], hops), part)
                part.count("stale_datagram_while_idle")
        for D in (0.0, 0.5, 2.5):
            for gap in (0.0, 0.3, 0.7, 1.0):
                for hops in (0, 3):
                    run_case(scenario_idle_fragment(spec["transport"], spec["framing"], spec["ka"], spec["T"], R, D * spec["T"], gap * spec["T"], hops), part)
                    part.count("stale_fragment_while_idle")
        for gap in (0.2, 1.0):
            for x in (0.0, 0.3, 0.9, 1.5, 2.2):     # the duplicate lands during the 1st / 2nd / 3rd transmission of request 2
                for count2 in (2, 3):
                    run_case(scenario_stale_answer_in_flight(spec["transport"], spec["framing"], spec["ka"], spec["T"], R, gap * spec["T"], x * spec["T"], count2), part)
                    part.count("stale_answer_while_next_request_in_flight")
    elif mode == "truncation":
        full = {"rtu": 9, "tcp": 13, "aa55": 9 + 40}[spec["framing"]]      # length of the complete answer to the request used here
        for R in spec["Rs"]:
            for k in range(0, full):
                if k == 0 and spec["transport"] == "tcp":
                    continue
                for tail in (["drop"], ["now"]):
                    for reps in sorted({1, R + 1}):
                        script = [["frag1", k]] * reps + tail
                        sc = scenario(spec["transport"], spec["framing"], spec["ka"], spec["T"], R, script)
                        sc["fullscript"] = [f"lone {k}-byte truncation x{reps}"] + tail
                        run_case(sc, part)
                        part.count("truncated_answer")
    elif mode == "entries":
        from .. import refcodec as rc_
        cmd_ = {"kind": "read", "comm": 0xF7, "reg": 100, "count": 2}
        pdu = rc_.tcp_request_pdu(cmd_)
        raw = (rc_.rtu_request(cmd_) if spec["framing"] == "rtu" else b"\x00\x01\x00\x00" + len(pdu).to_bytes(2, "big") + pdu).hex()
        for ka in (False, True):
            for script in itertools.product(["drop", "now", "garbage", "badsum", "exc", "frag1", "close", "senderr", "reset"], repeat=spec["R"] + 1):
                for step in (["rsensor", 100], ["wsetting", 100, -3], ["rawcmd", raw]):
                    sc = scenario(spec["transport"], spec["framing"], ka, spec["T"], spec["R"], list(script))
                    sc["tasks"] = [{"start": 0.0, "steps": [step]}]
                    sc["fullscript"] = list(script) + [f"entry={step[0]}"]
                    run_case(sc, part)
                    part.count("public_entry_points")
        # a long-running process: the Modbus/TCP requests around the 65 536th transmission of the process end like any other
        if spec["transport"] == "tcp":
            from .. import env as env0_
            g0 = env0_.goodwe()
            probe_cmd = g0.protocol.ModbusTcpReadCommand(0xF7, 100, 2)
            for _ in range(140000):          # advance the process-wide transaction counter to just below its wrap-around
                try:
                    if int.from_bytes(probe_cmd.request_bytes()[0:2], "big") >= 65525:
                        break
                except Exception:       # noqa  (building requests in a loop is C03's subject; here the requests that follow count)
                    break
            for ka in (False, True):
                sc = scenario("tcp", "tcp", ka, 1, 1, ["now"] * 24, nreq=20)
                sc["fullscript"] = ["20 answered requests around the 65 536th transmission of the process"]
                run, vs = run_case(sc, part)
                if not vs and all(c["outcome"] == "ok" for c in run.calls):
                    part.count("requests_around_transaction_id_wrap")
                elif not vs:
                    part.violate("C04/tcp/ends-with-other-exception/not-ok", f"answered requests around the transaction id wrap ended {[c['outcome'] for c in run.calls]}",
                                 {"scenario": sc})
        # an inverter object obtained through connect() WITHOUT a family (auto-detection), then a silent inverter: the budget the
        # caller asked for governs that request too
        from .. import env as env_, sims as sims_
        g = env_.goodwe()
        for fam in ("ET", "DT", "ES"):
            for port, how in [(p_, h_) for p_ in ((8899, 502) if fam != "ES" else (8899,)) for h_ in ("auto", "family", "ctor")]:
                for t, r in ((1, 0), (1, 2), (2, 3), (0.5, 1)) + (((3, 0), (2, 1), (1, 5)) if how != "auto" else ()):
                    if fam == "ES":
                        sim = sims_.Aa55Sim("inv0")
                    else:
                        sim = sims_.ModbusSim("inv0", regs=(sims_.et_device_info("9010KETU000W0000", 10000) if fam == "ET" else sims_.dt_device_info("9006KDTU000W0000")))
                    st = {}

                    async def flow(loop):
                        if how == "auto":
                            inv = await g.connect("inv0", port, None, 0, t, r)
                        elif how == "family":       # the family named by the caller (each family class forwards the budget itself)
                            inv = await g.connect("inv0", port, fam, 0, t, r)
                        else:                       # the class constructed directly, as the documentation shows
                            inv = {"ET": g.ET, "DT": g.DT, "ES": g.ES}[fam]("inv0", port, 0, t, r)
                            await inv.read_device_info()
                        st["n0"], st["t0"] = len([e for e in loop.events if e[1] == "tx"]), loop.time()
                        sim.silent = True
                        try:
                            await inv.read_runtime_data()
                            st["out"] = "ok"
                        except Exception as e:      # noqa
                            st["out"] = type(e).__name__
                        st["t1"] = loop.time()
                    run = engine.run_custom({("inv0", port): sim}, flow, vtime_cap=300, tx_cap=300)
                    part.evaluations += 1
                    tr = "udp" if port == 8899 else "tcp"
                    ctx = ({"auto": "connect() without family", "family": f"connect(family={fam!r})", "ctor": f"{fam}(host, port, 0, {t}, {r})"}[how]
                           + f" -> {fam} port {port} timeout={t} retries={r}, then a silent inverter")
                    case = {"discovered": True, "family": fam, "port": port, "t": t, "r": r, "how": how}
                    if run.stop or run.error is not None:
                        part.violate(f"C04/{tr}/hang" if run.stop else f"C04/{tr}/setup", f"{ctx}: {run.stop or repr(run.error)}", case)
                        continue
                    tx = [e[0] for e in run.events if e[1] == "tx"][st["n0"]:]
                    want = [round(st["t0"] + k * t, 9) for k in range(r + 1)]
                    if len(tx) != r + 1 or any(abs(a - b) > 1e-6 for a, b in zip(tx, want)):
                        part.violate(f"C04/{tr}/silent-spacing", f"{ctx}: transmissions at {[round(x - st['t0'], 6) for x in tx]}, expected {r + 1} spaced {t}", case)
                    elif st["out"] != "RequestFailedException" or abs(st["t1"] - (st["t0"] + (r + 1) * t)) > 1e-6:
                        part.violate(f"C04/{tr}/silent-failure-time", f"{ctx}: ended {st['out']} at +{round(st['t1'] - st['t0'], 6)}", case)
                    else:
                        part.count("auto_detected_object_silent" if how == "auto" else "family_object_budget_silent")
    elif mode == "connect":
        for R in (0, 1, 2, 3):
            for depth in range(1, spec["depth"] + 1):
                for cs in itertools.product(CONNECT, repeat=depth):
                    for tail in (["now"], ["drop", "now"], ["close", "now"]):
                        sc = scenario("tcp", "tcp", spec["ka"], 1, R, tail * 3, connect=list(cs))
                        run_case(sc, part)
                    if depth <= 2 and R <= 2:
                        # the 5 s bound on a connection attempt does not depend on the configured response timeout
                        for T in (7, 0.2):
                            run_case(scenario("tcp", "tcp", spec["ka"], T, R, ["now"] * 3, connect=list(cs)), part)
    elif mode == "random":
        rnd = random.Random(spec["seed"])
        for _ in range(spec["n"]):
            transport, framing = rnd.choice((("udp", "rtu"), ("tcp", "tcp"), ("udp", "aa55")))
            R = rnd.choice((0, 1, 2, 3, 4))
            T = rnd.choice((1, 1, 2, 0.5, 0.3))
            nreq = rnd.choice((1, 2, 3, 4))
            alpha = [s for s in ALPHA if not (framing == "aa55" and s in ("exc", "exc9"))]
            script = [rnd.choice(alpha) for _ in range(rnd.randrange(1, (R + 1) * nreq + 2))]
            connect = [rnd.choice(CONNECT + ["ok"] * 4) for _ in range(rnd.randrange(0, 4))] if transport == "tcp" else []
            sc = scenario(transport, framing, rnd.random() < 0.5, T, R, script, connect=connect, nreq=nreq)
            sc["after"] = rnd.choice(("drop", "now"))
            sc["hops"] = rnd.choice((0, 0, 1, 2, 3, 5))       # arrival phase of everything the peer sends
            run_case(sc, part)
        part.exhaustive = True      # random part does not affect the exhaustive claim of the enumerated part
    return part


def replay(case):
    part = Part()
    if case.get("discovered"):
        p_ = run_shard({"mode": "entries", "transport": "udp", "framing": "rtu", "T": 1, "R": 0})
        return [{"key": v["key"], "msg": v["msg"]} for v in p_.violations if (v.get("case") or {}).get("discovered")]
    run, vs = run_case(case["scenario"], part)
    for c in run.calls:
        print("  call", c)
    for e in engine.jsonable_events(run.events, 200):
        print("  ", e)
    return [{"key": k, "msg": m} for k, m in vs]
