"""C14  Sensors are decoded only from registers that were actually fetched (exploration, finite space)."""
from __future__ import annotations

from .. import configs, env
from .. import refcodec as rc_
from .. import refsensors as rs
from ..runner import Part

PROPERTY = "C14"
LEVEL = "exploration"
RULE = ("the C15 configuration space (model tags x rated power x all subsets of refused blocks x battery present/absent, DT and "
        "ES likewise) is run end to end (read_device_info + 3 x read_runtime_data against a simulated inverter that answers with "
        "EXACT-length responses); a hook on ProtocolResponse.read records (position, requested, returned) of every read during "
        "decoding, and every sensor offered by sensors() after the polls must lie inside a window the last successful poll fetched (every other Modbus/TCP run against firmware that sends a wrong MBAP length field; every fifth configuration with a failing re-run of read_device_info before one more poll, every tenth with polls in which one block read is refused with a non-address exception code, every tenth with read_sensor() of every listed id and with overlapping polls on a fresh object): no read may return fewer bytes than requested (= decoding past the end of the fetched window); every short "
        "read is attributed to the sensor that caused it; distinct = distinct configurations; reads observed are counted")
ASSUMPTIONS = ["the simulated inverter answers every read with exactly 2 x count payload bytes",
               "values decoded from a refused block's predecessor response would also show as foreign reads in C12/C15; this "
               "check decides only 'no reported value is fabricated from missing bytes'"]
MUST = ["block_refused_by_length_only", "firmware_version_variants", "poll_with_one_block_read_unanswered", "single_read_windows_checked", "fallback_read_lost_for_another_reason", "connect_while_inverter_silent", "offered_sensors_checked", "single_reads_observed", "overlapping_polls", "poll_with_transient_rejection", "poll_after_failed_device_info", "tcp_wrong_mbap_length", "configs_run", "reads_observed", "block_running", "block_battery", "block_battery2", "block_meter_basic",
        "block_meter_ext", "block_meter_ext2", "block_mppt", "block_dt_running", "block_dt_meter", "block_es_runtime"]
EXHAUSTIVE = {"quick": False, "thorough": True}

BLOCK_OF = {(35100, 125): "block_running", (37000, 24): "block_battery", (39000, 22): "block_battery2",
            (36000, 45): "block_meter_basic", (36000, 58): "block_meter_ext", (36000, 125): "block_meter_ext2",
            (35301, 61): "block_mppt", (30100, 73): "block_dt_running", (30195, 15): "block_dt_meter"}


def check_config(cfg, part, rl, port=8899, mbap=None, rerun_info=False):
    g = env.goodwe()
    fam = cfg["family"]
    case = {"config": cfg, "port": port, "mbap": mbap}
    tag = f"{fam} {cfg['tag']} rated={cfg['rated']} refused={cfg['refused']} battery={cfg['battery']} fw={cfg.get('fw_versions')} refused-by-length={cfg.get('refuse_exact')}"

    async def failing_device_info_then_poll(inv, sim, loop, res_):
        """history: a repeated read_device_info() gets no answer (reconnect), the next poll must still decode only what it fetched"""
        sim.silent = True
        try:
            await inv.read_device_info()
        except g.InverterError:
            pass
        sim.silent = False
        rl.start()
        try:
            await inv.read_runtime_data()
        except g.InverterError:
            pass
        for entry in rl.stop():
            if entry[3] < entry[2]:
                res_["short_reads"].append((9,) + entry)
        part.count("poll_after_failed_device_info")

    async def connect_while_silent(inv, sim, loop, res_):
        """history: connect(family=...) is attempted while the inverter does not answer; if it hands out an object all the same, that
        object's polls must still decode only what they fetched and offer only what they fetch"""
        sim.silent = True
        try:
            inv2 = await g.connect("inv0", port, fam, 0, 1, 0)
        except g.InverterError:
            inv2 = None
        sim.silent = False
        part.count("connect_while_inverter_silent")
        if inv2 is None:
            return
        windows = None
        for _ in range(3):
            n0 = len(sim.log)
            rl.start()
            try:
                await inv2.read_runtime_data()
                windows = [(r[2]["reg"], r[2]["count"]) for r in sim.log[n0:] if r[2]["kind"] == "read"]
            except g.InverterError:
                pass
            for entry in rl.stop():
                if entry[3] < entry[2]:
                    res_["short_reads"].append((50,) + entry)
        if windows and fam != "ES":
            for sn_ in inv2.sensors():
                size_ = getattr(sn_, "size_", 0)
                lo_, hi_ = sn_.offset, sn_.offset + (size_ + 1) // 2 - 1
                if size_ > 0 and not any(a <= lo_ and hi_ <= a + c - 1 for a, c in windows) and sn_.id_ not in ("apparent_power2", "apparent_power3"):
                    part.violate(f"C14/{fam}/unidentified-object/read-past-window/{sn_.id_}",
                                 f"{tag}: connect() returned an object although read_device_info() got no answer; it offers {sn_.id_} at {lo_}..{hi_} "
                                 f"but its polls fetch only {[(a, a + c - 1) for a, c in windows]}", case)
                    break

    async def transient_rejections(inv, sim, loop, res_):
        """history: for one poll each, one block read is refused with an exception OTHER than ILLEGAL DATA ADDRESS (busy, device
        failure); whatever the poll reports must still be decoded from bytes it fetched"""
        blocks_read = sorted({(r[2]["reg"], r[2]["count"]) for r in sim.log if r[2]["kind"] == "read" and (r[2]["reg"], r[2]["count"]) in BLOCK_OF})
        for j, (reg, count) in enumerate(blocks_read):
            sim.exc_map[(3, reg, count)] = (6, 4, 1)[j % 3]
            rl.start()
            try:
                await inv.read_runtime_data()
            except g.InverterError:
                pass
            for entry in rl.stop():
                if entry[3] < entry[2]:
                    res_["short_reads"].append((10 + j,) + entry)
            del sim.exc_map[(3, reg, count)]
            part.count("poll_with_transient_rejection")
        # ... and for one poll each, one block read gets NO answer at all (lost on the way); that poll and the two after it
        for j, (reg, count) in enumerate(blocks_read):
            armed_ = {"on": True}
            orig_handle_ = sim.handle

            def handle_(req, kind, _o=orig_handle_, _a=armed_, _k=(reg, count)):
                if _a["on"] and req["kind"] == "read" and (req["reg"], req.get("count")) == _k:
                    _a["on"] = False
                    return None
                return _o(req, kind)
            sim.handle = handle_
            for _ in range(3):
                rl.start()
                try:
                    await inv.read_runtime_data()
                except g.InverterError:
                    pass
                for entry in rl.stop():
                    if entry[3] < entry[2]:
                        res_["short_reads"].append((70 + j,) + entry)
            sim.handle = orig_handle_
            part.count("poll_with_one_block_read_unanswered")
        await failing_device_info_then_poll(inv, sim, loop, res_)

    async def single_reads_and_overlapping_polls(inv, sim, loop, res_):
        """(a) read_sensor() of every listed id: whatever it fetches, it decodes only from that; (b) a fresh object of the same model whose
        first two polls overlap in time (the second starts while the first waits for a refusal that narrows the sensor set)"""
        import asyncio
        # (the settings - some share their id with a runtime sensor at another address - are read first, as an application does)
        for first in (lambda: inv.read_settings_data(), lambda: inv.read_setting("work_mode"), lambda: inv.read_setting("battery_modules")):
            try:
                await first()
            except (g.InverterError, ValueError):
                pass
        for sn_ in inv.sensors():
            rl.start()
            n0 = len(sim.log)
            ok_ = False
            try:
                await inv.read_sensor(sn_.id_)
                ok_ = True
            except (g.InverterError, ValueError):
                pass
            for entry in rl.stop():
                if entry[3] < entry[2]:
                    res_["short_reads"].append((30,) + entry)
            part.count("single_reads_observed")
            size_ = getattr(sn_, "size_", 0)
            if ok_ and size_ > 0 and fam != "ES":
                wins = [(r[2]["reg"], r[2]["count"]) for r in sim.log[n0:] if r[2]["kind"] == "read"]
                lo_, hi_ = sn_.offset, sn_.offset + (size_ + 1) // 2 - 1
                # (an id may be listed twice, e.g. meter_e_total_exp as a 4-byte and - extended-2 models - an 8-byte counter: either place counts)
                places = [(x.offset, x.offset + (getattr(x, "size_", 0) + 1) // 2 - 1) for x in inv.sensors()
                          if x.id_ == sn_.id_ and getattr(x, "size_", 0) > 0]
                if wins and not any(a <= l2 and h2 <= a + c - 1 for a, c in wins for l2, h2 in places):
                    part.violate(f"C14/{fam}/single-read/read-outside-window/{sn_.id_}",
                                 f"{tag}: read_sensor({sn_.id_!r}) (registers {lo_}..{hi_}) returned a value although its requests fetched only "
                                 f"{[(a, a + c - 1) for a, c in wins]}", case)
                elif wins:
                    part.count("single_read_windows_checked")
        if fam == "ES":
            return
        # a fresh object whose FIRST poll hits a refused block and then loses the follow-up (smaller) read for another reason
        # (no answer / busy): the polls after that must again decode only what they fetch and offer only what they fetch
        for how in ("silent", "busy"):
            inv3 = type(inv)("inv0", port, 0, 1, 0)
            await inv3.read_device_info()
            inv3.sensors()
            fallback_reads = [(36000, 58), (36000, 45), (30195, 15)]
            armed = {"on": True}
            orig_handle = sim.handle

            def handle(req, kind, _o=orig_handle):
                if armed["on"] and req["kind"] == "read" and (req["reg"], req.get("count")) in fallback_reads:
                    armed["on"] = False
                    if how == "silent":
                        return None
                    return (rc_.tcp_exception if kind == "tcp" else rc_.rtu_exception)(req, 6)
                return _o(req, kind)
            sim.handle = handle
            windows = None
            for _ in range(4):
                n0 = len(sim.log)
                rl.start()
                try:
                    await inv3.read_runtime_data()
                    windows = [(r[2]["reg"], r[2]["count"]) for r in sim.log[n0:] if r[2]["kind"] == "read"]
                except g.InverterError:
                    pass
                for entry in rl.stop():
                    if entry[3] < entry[2]:
                        res_["short_reads"].append((60,) + entry)
            sim.handle = orig_handle
            part.count("fallback_read_lost_for_another_reason")
            if windows:
                for sn_ in inv3.sensors():
                    size_ = getattr(sn_, "size_", 0)
                    lo_, hi_ = sn_.offset, sn_.offset + (size_ + 1) // 2 - 1
                    if size_ > 0 and not any(a <= lo_ and hi_ <= a + c - 1 for a, c in windows) and sn_.id_ not in ("apparent_power2", "apparent_power3"):
                        part.violate(f"C14/{fam}/after-lost-fallback-read/read-past-window/{sn_.id_}",
                                     f"{tag}: first poll: refused block, then the smaller read {how}; afterwards sensors() offers {sn_.id_} at {lo_}..{hi_} "
                                     f"but the polls fetch only {[(a, a + c - 1) for a, c in windows]}", case)
                        break
        for gap in (0.05, 0.15, 0.3):
            inv2 = type(inv)("inv0", port, 0, 1, 0)
            await inv2.read_device_info()
            sim.delay = 0.2

            async def poll(after):
                await asyncio.sleep(after)
                try:
                    await inv2.read_runtime_data()
                except g.InverterError:
                    pass
            rl.start()
            await asyncio.gather(poll(0.0), poll(gap), poll(2 * gap))
            for entry in rl.stop():
                if entry[3] < entry[2]:
                    res_["short_reads"].append((40,) + entry)
            sim.delay = 0.0
            part.count("overlapping_polls")

    res = configs.run_config(cfg, ncalls=3, port=port, readlog=rl, mbap_len_bug=mbap,
                             extra=({"transient": transient_rejections, "overlap": single_reads_and_overlapping_polls, "connect": connect_while_silent}.get(rerun_info, failing_device_info_then_poll)) if rerun_info else None)
    run = res["run"]
    part.evaluations += 1
    part.count("configs_run")
    case = {"config": cfg, "port": port, "mbap": mbap}
    tag = f"{fam} {cfg['tag']} rated={cfg['rated']} refused={cfg['refused']} battery={cfg['battery']} fw={cfg.get('fw_versions')} refused-by-length={cfg.get('refuse_exact')}"
    if run.stop or run.error is not None:
        part.violate(f"C14/{fam}/setup-failed", f"{tag}: {run.stop or repr(run.error)}", case)
        return
    part.count("reads_observed", rl.total)
    rl.total = 0
    # which blocks were read in this configuration (from the wire)
    sim = res["sim"]
    for t, n, req, raw in sim.log:
        if req["kind"] == "read":
            b = BLOCK_OF.get((req["reg"], req["count"]))
            if b:
                part.count(b)
    if fam == "ES" and any(c == "0106" for _, _, c, _ in sim.aa55_log):
        part.count("block_es_runtime")
    seen = set()
    inv = res["inv"]
    # clause 1: every sensor OFFERED after the last successful poll lies inside a window that this poll fetched
    polls = res.get("poll_windows") or []
    last = next((w for ok_, w in reversed(polls) if ok_), None)
    if fam != "ES" and last is not None:
        for sn in res.get("sensors_after_polls", ()):
            size = getattr(sn, "size_", 0)
            if size <= 0:
                continue
            lo, hi = sn.offset, sn.offset + (size + 1) // 2 - 1
            part.count("offered_sensors_checked")
            if not any(a <= lo and hi <= a + c - 1 for a, c in last):
                win = next(((a, c) for a, c in last if a <= lo <= a + c - 1), None) or min(last, key=lambda w: abs(w[0] - lo))
                blk = BLOCK_OF.get(win, f"block_{win[0]}x{win[1]}").replace("block_", "")
                key = f"C14/{fam}/{blk}/read-past-window/{sn.id_}"
                if key not in seen:
                    seen.add(key)
                    part.violate(key, f"{tag}: sensors() offers {sn.id_} at registers {lo}..{hi}, but the last poll fetched only "
                                      f"{[(a, a + c - 1) for a, c in last]}: its value cannot come from fetched bytes", case)
    # short reads -> attribute
    for (call_i, resp, pos, size, ret) in res["short_reads"]:
        cmd = resp.command
        first, count = getattr(cmd, "first_address", None), getattr(cmd, "value", None)
        culprits = []
        for sn in inv.sensors() + tuple(getattr(inv, "_sensors_mppt", ())) + tuple(getattr(inv, "_sensors_battery", ())) + \
                tuple(getattr(inv, "_sensors_battery2", ())) + tuple(getattr(inv, "_ET__all_sensors_meter", ())) + \
                tuple(getattr(inv, "_ET__all_sensors", ())):
            try:
                span = rs.own_span(sn)
            except rs.NoRef:
                continue
            if fam == "ES":
                p = sn.offset
            else:
                if first is None or not (first <= sn.offset < first + 4000):
                    continue
                p = (sn.offset - first) * 2
            if p <= pos < p + span and pos + size <= p + span + 8 and p + span > len(resp.response_data()):
                culprits.append(sn.id_)
        who = sorted(set(culprits))[:1] or ["?"]
        blk = BLOCK_OF.get((first, count), f"block_{first}x{count}").replace("block_", "")
        key = f"C14/{fam}/{blk}/read-past-window/{who[0]}"
        if key in seen:
            continue
        seen.add(key)
        part.violate(key, f"{tag}: decoding of the answer to read({first}, {count}) asked for {size} bytes at byte {pos} but only {ret} "
                          f"were fetched (sensor {who[0]}): the reported value is fabricated from missing bytes", case)
    part.see(repr(sorted(cfg.items())) + str(port))
    if part.evaluations % 401 == 7:
        part.sample({"config": cfg, "port": port, "reads_with_fewer_bytes_than_requested": len(res["short_reads"]),
                     "blocks_read": sorted({BLOCK_OF.get((r[2]["reg"], r[2].get("count")), "other") for r in sim.log if r[2]["kind"] == "read"})})


class CountingReadLog(rs.ReadLog):
    def __init__(self, g):
        super().__init__(g)
        self.total = 0

    def stop(self):
        log = super().stop()
        self.total += len(log)
        return log


def plan(tier, seed):
    return [{"shard": i, "shards": 16, "tier": tier} for i in range(16)]


def run_shard(spec):
    g = env.goodwe()
    part = Part()
    rl = CountingReadLog(g)
    tier = spec["tier"]
    allc = list(configs.et_configs(g, tier)) + list(configs.dt_configs(g, tier)) + list(configs.es_configs(g, tier))
    fwv = configs.firmware_variants()          # firmware dimension: each configuration runs with one (DSP1, DSP2, ARM) version triple
    for i, cfg in enumerate(allc):
        if cfg["family"] in ("ET", "DT"):
            cfg = dict(cfg, fw_versions=fwv[(i * 5 + env.seed()) % len(fwv)])
            if cfg["fw_versions"] is not None:
                part.count("firmware_version_variants")
        if cfg["family"] == "ET" and i % 4 == 1:
            # firmware that refuses one block read by its LENGTH (ILLEGAL DATA ADDRESS for exactly that count) and would serve any shorter
            # read at the same address: whatever fallback the library has for it must still fetch what it offers
            blk = [(36000, 125), (35301, 61), (37000, 24), (39000, 22), (36000, 58)][(i // 4) % 5]
            cfg = dict(cfg, refuse_exact=[blk] + ([(36000, 125)] if blk == (36000, 58) else []))
            part.count("block_refused_by_length_only")

        if i % spec["shards"] != spec["shard"]:
            continue
        check_config(cfg, part, rl, 8899, rerun_info=("transient" if i % 10 == 5 else "overlap" if i % 10 == 3 else "connect" if i % 10 == 7 else i % 5 == 0))
        if cfg["family"] != "ES" and (tier != "quick" or i % 7 == 0):
            # Modbus/TCP; every other run against firmware that sends a wrong MBAP length field (a known GoodWe quirk)
            check_config(cfg, part, rl, 502, mbap=(None, "request", "bytecount")[i % 3])
            if i % 3:
                part.count("tcp_wrong_mbap_length")
    return part


def replay(case):
    g = env.goodwe()
    part = Part()
    check_config(case["config"], part, CountingReadLog(g), case.get("port", 8899), mbap=case.get("mbap"), rerun_info=True)
    return [{"key": v["key"], "msg": v["msg"]} for v in part.violations]
