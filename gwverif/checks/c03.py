"""C03  Requests on the wire are canonical, decodable frames carrying the arguments (exploration)."""
from __future__ import annotations

import random

from .. import contracts, engine, env, models, sims
from .. import refcodec as rc
from ..peers import ScriptedPeer
from ..runner import Part

PROPERTY = "C03"
LEVEL = "exploration"
RULE = ("(a) every command class is constructed over comm 0..255, counts 1..125, all signed 16-bit values (exhaustive), "
        "registers (boundaries + random quick / all 65536 thorough), even payloads 2..246 bytes (8-byte groups for AA55) and "
        "its request_bytes() is parsed by independent RTU / MBAP / AA55 decoders and compared with the arguments (also the commands that UdpInverterProtocol / TcpInverterProtocol objects build for every configured comm address); icontract "
        "postconditions do the same on the real create_modbus_* builders; (b) a history of 200 000 consecutive Modbus/TCP "
        "request_bytes() calls (3 wraps of the transaction counter); (c) random operation sequences through the inverter API "
        "on the wire against a decoding simulator, with drops so that retransmissions occur, TCP sessions closed by the peer between "
        "requests and failing TCP connection attempts: every transmission made during call k must decode to the operation of call k; distinct = distinct (framing, "
        "command class, argument class) tuples + distinct transaction ids seen")
ASSUMPTIONS = ["the decoders in refcodec follow the Modbus specification (big-endian fields, CRC lo-hi, MBAP length = bytes "
               "that follow) and the AA55 framing stated in the property"]
MUST = ["concurrent_callers_served_their_own_operation", "connect_with_family_and_comm_addr", "clock_writes_checked", "named_reads_of_calculated_ids", "answers_with_foreign_transaction_id", "dt_export_limit_by_model_line", "es_setter_sequences_decoded", "auto_detected_object_frames", "aa55_over_both_transports", "overlapping_polls_txids", "rmw_with_padded_read_answers", "named_single_reads", "dt_fallback_model_query", "tcp_connect_failures_between_requests", "tcp_session_dropped_between_requests", "tcp_session_dropped_after_every_request", "contract_eval_create_modbus_rtu_request", "contract_eval_create_modbus_tcp_request",
        "contract_eval_create_modbus_rtu_multi_request", "contract_eval_create_modbus_tcp_multi_request",
        "txid_wraps", "negative_values", "aa55_negative_values", "wire_ops_matched", "wire_retransmissions",
        "classes_constructed", "protocol_object_commands"]
EXHAUSTIVE = {"quick": False, "thorough": False}


def bad(part, framing, what, msg, case):
    part.violate(f"C03/{framing}/{what}", msg, case)


def chk_modbus(g, part, framing, kind, comm, reg, val):
    p = g.protocol
    cls = {("rtu", "read"): p.ModbusRtuReadCommand, ("rtu", "write"): p.ModbusRtuWriteCommand,
           ("rtu", "multi"): p.ModbusRtuWriteMultiCommand, ("tcp", "read"): p.ModbusTcpReadCommand,
           ("tcp", "write"): p.ModbusTcpWriteCommand, ("tcp", "multi"): p.ModbusTcpWriteMultiCommand}[(framing, kind)]
    case = {"framing": framing, "kind": kind, "comm": comm, "reg": reg, "val": val.hex() if isinstance(val, bytes) else val}
    part.evaluations += 1
    try:
        cmd = cls(comm, reg, val)
        fr = cmd.request_bytes()
    except Exception as e:      # noqa
        return bad(part, framing, "constructor-raises", f"{cls.__name__}({comm}, {reg}, {val!r}) raised {type(e).__name__}: {e}", case)
    try:
        d = rc.parse_rtu_request(fr) if framing == "rtu" else rc.parse_tcp_request(fr)
    except rc.BadFrame as b:
        return bad(part, framing, "undecodable-request", f"{cls.__name__}({comm}, {reg}, {val!r}) -> {fr.hex()[:80]}: {b}", case)
    want = {"kind": kind, "comm": comm, "reg": reg}
    if kind == "read":
        want["count"] = val
    elif kind == "write":
        want["value"] = val
    else:
        want["count"], want["data"] = len(val) // 2, val
    diff = {k: (d.get(k), v) for k, v in want.items() if d.get(k) != v}
    if diff:
        bad(part, framing, "request-carries-wrong-arguments",
            f"{cls.__name__}({comm}, {reg}, {val!r}) decodes to {diff} (decoded, intended): {fr.hex()[:80]}", case)
    return d


def chk_aa55(g, part, kind, reg, val):
    p = g.protocol
    case = {"framing": "aa55", "kind": kind, "reg": reg, "val": val.hex() if isinstance(val, bytes) else val}
    part.evaluations += 1
    try:
        if kind == "read":
            cmd = p.Aa55ReadCommand(reg, val)
            want_cmd, want_pl = "011a", reg.to_bytes(2, "big") + bytes([val])
        elif kind == "write":
            cmd = p.Aa55WriteCommand(reg, val)
            want_cmd, want_pl = "0239", reg.to_bytes(2, "big") + b"\x01" + (val & 0xFFFF).to_bytes(2, "big")
        elif kind == "multi":
            cmd = p.Aa55WriteMultiCommand(reg, val)
            want_cmd, want_pl = "0239", reg.to_bytes(2, "big") + bytes([len(val)]) + val
        else:
            cmd = p.Aa55ProtocolCommand(reg, val)       # (payload hex, response type)
            want_cmd, want_pl = reg[0:4].lower(), bytes.fromhex(reg[6:])
        fr = cmd.request_bytes()
    except Exception as e:      # noqa
        return bad(part, "aa55", "constructor-raises", f"AA55 {kind}({reg}, {val!r}) raised {type(e).__name__}: {e}", case)
    try:
        d = rc.parse_aa55_request(fr)
    except rc.BadFrame as b:
        return bad(part, "aa55", "undecodable-request", f"AA55 {kind}({reg}, {val!r}) -> {fr.hex()[:80]}: {b}", case)
    if d["cmd"] != want_cmd or d["payload"] != want_pl:
        bad(part, "aa55", "request-carries-wrong-arguments",
            f"AA55 {kind}({reg}, {val!r}) decodes to cmd={d['cmd']} payload={d['payload'].hex()}, intended {want_cmd} {want_pl.hex()}", case)


def constructors(spec, part):
    g = env.goodwe()
    rnd = random.Random(spec["seed"])
    regs_b = [0, 1, 0xFF, 0x100, 0x7FFF, 0x8000, 0xFFFE, 0xFFFF]
    what = spec["what"]
    if what == "values":
        for framing in ("rtu", "tcp"):
            for v in range(spec["lo"], spec["hi"]):
                chk_modbus(g, part, framing, "write", rnd.choice((0xF7, 0x7F, rnd.randrange(256))),
                           rnd.choice(regs_b + [rnd.randrange(65536)]), v)
                if v < 0:
                    part.count("negative_values")
                part.see(f"{framing}|write|{'neg' if v < 0 else 'pos'}|{abs(v).bit_length()}")
        for v in range(spec["lo"], spec["hi"], 7):
            chk_aa55(g, part, "write", rnd.randrange(65536), v)
            if v < 0:
                part.count("aa55_negative_values")
            part.see(f"aa55|write|{'neg' if v < 0 else 'pos'}|{abs(v).bit_length()}")
    elif what == "registers":
        for framing in ("rtu", "tcp"):
            regs = range(spec["lo"], spec["hi"]) if spec.get("all") else regs_b + [rnd.randrange(65536) for _ in range(spec["n"])]
            for reg in regs:
                chk_modbus(g, part, framing, "read", rnd.randrange(256), reg, rnd.randrange(1, 126))
                chk_modbus(g, part, framing, "write", rnd.randrange(256), reg, rnd.randrange(-32768, 32768))
                part.see(f"{framing}|reg|{reg.bit_length()}")
        for reg in regs_b + [rnd.randrange(65536) for _ in range(spec["n"] // 4)]:
            chk_aa55(g, part, "read", reg, rnd.randrange(1, 128))
            chk_aa55(g, part, "multi", reg, bytes(rnd.randrange(256) for _ in range(8)))
            part.see(f"aa55|reg|{reg.bit_length()}")
    elif what == "grid":
        for framing in ("rtu", "tcp"):
            for comm in range(256):
                for count in (1, 2, 125, rnd.randrange(1, 126)):
                    chk_modbus(g, part, framing, "read", comm, rnd.randrange(65536), count)
                part.see(f"{framing}|comm|{comm}")
                # the commands the transport objects build for their configured comm address (0 is a configurable address too)
                pcls = g.protocol.UdpInverterProtocol if framing == "rtu" else g.protocol.TcpInverterProtocol
                proto = pcls("inv", 8899 if framing == "rtu" else 502, comm, 1, 1)
                reg, val, data = rnd.randrange(65536), rnd.randrange(-32768, 32768), bytes(rnd.randrange(256) for _ in range(2 * rnd.randrange(1, 5)))
                for kind, cmd, want in (("read", proto.read_command(reg, 3), {"count": 3}), ("write", proto.write_command(reg, val), {"value": val}),
                                        ("multi", proto.write_multi_command(reg, data), {"data": data})):
                    part.evaluations += 1
                    case = {"protocol_object": True, "framing": framing, "comm": comm, "kind": kind}
                    try:
                        d = (rc.parse_rtu_request if framing == "rtu" else rc.parse_tcp_request)(cmd.request_bytes())
                    except rc.BadFrame as b:
                        bad(part, framing, "undecodable-request", f"{pcls.__name__}(comm {comm}).{kind}: {b}", case)
                        continue
                    want = dict(want, kind=kind, comm=comm, reg=reg)
                    diff = {k: (d.get(k), v) for k, v in want.items() if d.get(k) != v}
                    if diff:
                        bad(part, framing, "request-carries-wrong-arguments",
                            f"{pcls.__name__} configured with comm address {comm}: {kind} command decodes to {diff} (decoded, intended)", case)
                    else:
                        part.count("protocol_object_commands")
            for count in range(1, 126):
                chk_modbus(g, part, framing, "read", 0xF7, rnd.randrange(65536), count)
                part.see(f"{framing}|count|{count}")
            for nb in range(2, 248, 2):
                chk_modbus(g, part, framing, "multi", rnd.randrange(256), rnd.choice(regs_b + [rnd.randrange(65536)]),
                           bytes(rnd.randrange(256) for _ in range(nb)))
                part.see(f"{framing}|multi|{nb}")
        # the AA55 command set used by the ES family
        for payload, rt in (("010200", "0182"), ("010600", "0186"), ("010900", "0189"), ("031d00", "039d"),
                            ("033601%02x" % rnd.randrange(2), "03B6"), ("03270200%02x" % rnd.choice((0, 16, 48)), "03B7"),
                            ("032601%02x" % rnd.choice((1, 2, 4, 8)), "03B6"), ("035901%02x" % rnd.randrange(4), "03D9"),
                            ("033502%04x" % rnd.randrange(65536), "03b5"),
                            ("032c05%02x%02x%02x%02x%02x" % (0, 0, 23, 59, rnd.randrange(101)), "03AC"),
                            ("032d05%02x%02x%02x%02x%02x" % (0, 0, 0, 0, rnd.randrange(101)), "03AD"),
                            ("030206" + bytes([24, 5, 17, 12, 30, 15]).hex(), "0382")):
            chk_aa55(g, part, "raw", payload, rt)
            part.see(f"aa55|raw|{payload[:4]}")
        part.count("classes_constructed")


def txid_history(spec, part):
    g = env.goodwe()
    cmd = g.protocol.ModbusTcpReadCommand(0xF7, 35100, 10)
    other = g.protocol.ModbusTcpWriteCommand(0xF7, 47000, -3)
    prev = None
    seen = set()
    wraps = 0
    for i in range(spec["n"]):
        c = cmd if i % 3 else other
        part.evaluations += 1
        try:
            fr = c.request_bytes()
        except Exception as e:      # noqa
            bad(part, "tcp", "request-raises", f"building transmission #{i + 1} of the process raised {type(e).__name__}: {e} (previous transaction id {prev})",
                {"txid": True, "n": i + 1})
            continue
        tx = int.from_bytes(fr[0:2], "big")
        if tx == 0:
            bad(part, "tcp", "transaction-id-zero", f"transmission #{i + 1}: transaction id 0 (previous {prev})", {"txid": True, "n": i + 1})
        if tx == prev:
            bad(part, "tcp", "transaction-id-repeats", f"transmission #{i + 1}: transaction id {tx} equals the previous one", {"txid": True, "n": i + 1})
        if prev is not None and tx < prev:
            wraps += 1
        try:
            d = rc.parse_tcp_request(fr)
            if d["reg"] != (35100 if i % 3 else 47000):
                bad(part, "tcp", "request-carries-wrong-arguments", f"after {i} transmissions the frame decodes to {d}", {"txid": True, "n": i + 1})
        except rc.BadFrame as b:
            bad(part, "tcp", "undecodable-request", f"transmission #{i + 1}: {b} ({fr.hex()})", {"txid": True, "n": i + 1})
        prev = tx
        seen.add(tx)
    part.count("txid_wraps", wraps)
    part.count("distinct_txids", len(seen))
    part.see(f"txid-history|{len(seen)}|{wraps}")
    part.sample({"txid_history": spec["n"], "distinct_ids": len(seen), "wraps": wraps, "min": min(seen), "max": max(seen)})


def wire_ops(spec, part):
    """Random operation sequences through the inverter API; the simulator decodes every transmission."""
    g = env.goodwe()
    rnd = random.Random(spec["seed"])
    for i in range(spec["n"]):
        transport = rnd.choice(("udp", "tcp"))
        framing = "rtu" if transport == "udp" else "tcp"
        ops, steps = [], []
        for _ in range(rnd.randrange(1, 6)):
            k = rnd.choice(("read", "write", "multi", "rsensor", "wsetting"))
            reg = rnd.choice((0, 0xFFFF, 35100, 47510, rnd.randrange(65536)))
            if k == "read":
                c = rnd.randrange(1, 126)
                steps.append(["read", reg, c]); ops.append(("read", reg, c))
            elif k == "write":
                v = rnd.choice((-1, -32768, 32767, 0, rnd.randrange(-32768, 32768)))
                steps.append(["write", reg, v]); ops.append(("write", reg, v))
            elif k == "multi":
                data = bytes(rnd.randrange(256) for _ in range(2 * rnd.choice((1, 1, 2, 4, rnd.randrange(1, 124)))))
                steps.append(["multi", reg, data.hex()]); ops.append(("multi", reg, data))
            elif k == "rsensor":
                steps.append(["rsensor", reg]); ops.append(("read", reg, 1))
            else:
                v = rnd.randrange(-32768, 32768)
                steps.append(["wsetting", reg, v]); ops.append(("write", reg, v))
        every_time = transport == "tcp" and i % 10 == 3
        if every_time:           # ... after EVERY request (a gateway that serves one request per session)
            steps = [x for st_ in steps for x in (st_, ["peerdrop"])]
            part.count("tcp_session_dropped_after_every_request")
        elif transport == "tcp" and rnd.random() < 0.4:       # the peer closes the session between two requests
            j = rnd.randrange(1, len(steps) + 1)
            steps.insert(j, ["peerdrop"])
            part.count("tcp_session_dropped_between_requests")
        drops = rnd.choice((0, 0, 1, 2))
        sim = sims.ModbusSim(engine.HOST)
        dropped = {"n": 0}
        orig_handle = sim.handle

        def handle(req, kind, _o=orig_handle, _d=dropped):
            if _d["n"] < drops and rnd.random() < 0.5:
                _d["n"] += 1
                return None
            return _o(req, kind)
        sim.handle = handle
        if transport == "tcp" and rnd.random() < 0.3:
            sim.resp_txid = rnd.choice((1, 0x0001, 0xFFFF, "prev", 0x1234))       # gateway that answers with a fixed / stale transaction id
            part.count("answers_with_foreign_transaction_id")
        sc = {"transport": transport, "framing": framing, "keep_alive": rnd.random() < 0.6, "T": 1, "R": 3,
              "comm": rnd.choice((0, 0x11, 0xF7, 0xFE)), "family": rnd.choice(("ET", "DT")),
              "tasks": [{"start": 0.0, "steps": steps}]}
        if every_time:
            sc["keep_alive"] = i % 20 == 3
        if transport == "tcp" and rnd.random() < 0.5:     # some connection attempts fail before anything is sent
            sc["connect"] = [rnd.choice(("ok", "refused", "ok", "timeout", "unreach")) for _ in range(16)]
            sc["keep_alive"] = rnd.random() < 0.3
            part.count("tcp_connect_failures_between_requests")
        run = engine.run_scenario(sc, peer_factory=lambda s, _sim=sim: _sim, quiesce=False)
        part.evaluations += 1
        case = {"wire": True, "scenario": sc, "seed": spec["seed"], "i": i}
        for b in sim.bad:
            bad(part, framing, "undecodable-request", f"simulator could not decode transmission #{b[0]}: {b[1]} ({b[2].hex()[:80]})", case)
        # collapse retransmissions (identical operation), then compare with the intended operations
        seen_ops = []
        last_tx = None
        comm_want = sc["comm"] or (0xF7 if sc["family"] == "ET" else 0x7F)
        for t, n, req, raw in sim.log:
            op = (req["kind"], req["reg"], req.get("count") if req["kind"] == "read" else
                  (req.get("value") if req["kind"] == "write" else req.get("data")))
            if req["comm"] != comm_want:
                bad(part, framing, "request-carries-wrong-arguments", f"comm address {req['comm']} on the wire, configured {comm_want}", case)
            if framing == "tcp":
                if last_tx is not None and req["txid"] == last_tx:
                    bad(part, "tcp", "transaction-id-repeats", f"transmission #{n} repeats transaction id {last_tx}", case)
                last_tx = req["txid"]
            if seen_ops and seen_ops[-1] == op:
                part.count("wire_retransmissions")      # (or an identical consecutive operation; resolved below)
            seen_ops.append(op)
        # every transmission made during call k must decode to exactly the operation call k was asked to perform (a call that
        # fails may have made none); a call that succeeded must have transmitted at least once
        parse = rc.parse_rtu_request if framing == "rtu" else rc.parse_tcp_request
        op_calls = [c for c in run.calls if c["step"][0] not in ("peerdrop", "sleep")]
        okay, matched = True, 0
        for rec, op in zip(op_calls, ops):
            sent = []
            for e in engine.events_of_call(run, rec["id"]):
                if e[1] != "tx":
                    continue
                try:
                    req = parse(e[4])
                except rc.BadFrame:
                    continue        # (reported above as undecodable-request)
                sent.append((req["kind"], req["reg"], req.get("count") if req["kind"] == "read" else
                             (req.get("value") if req["kind"] == "write" else req.get("data"))))
            wrong = [x for x in sent if x != op]
            if wrong or (rec["outcome"] == "ok" and not sent):
                okay = False
                bad(part, framing, "wire-operation-mismatch",
                    f"call #{rec['idx']} was asked for {op[:2]} (ended {rec['outcome']}) but transmitted {[(x[0], x[1]) for x in sent]}; "
                    f"intended sequence {[(o[0], o[1]) for o in ops]}", case)
                break
            matched += bool(sent)
        if okay:
            part.count("wire_ops_matched", matched)
        part.see(f"wire|{framing}|{len(ops)}|{drops}|{tuple(o[0] for o in ops)}")


def named_reads(spec, part):
    """single reads of every listed sensor / setting id (ET, DT) with a non-default comm address on both transports: the request on
    the wire must be a read of exactly the registers that hold the item (offset, ceil(size / 2)); plus DT's fallback model-name
    query (taken when the identification block holds a non-ASCII model name)"""
    from .. import models
    g = env.goodwe()
    rnd = random.Random(spec["seed"])
    for fam, port, comm in (("ET", 8899, 0x25), ("ET", 502, 0x11), ("DT", 8899, 0x25), ("DT", 502, 0x31), ("ET", 8899, 0), ("DT", 502, 0)):
        sim = models.family_sim(fam)
        if fam == "DT":
            sim.set_bytes(30001 + 11, bytes([0xC4, 0xD6, 0xFC, 0x80, 0x90, 0xA0, 0xB0, 0xC0, 0xD0, 0xE0]))     # model name field: not ASCII
        want_comm = comm or (0xF7 if fam == "ET" else 0x7F)
        items = []

        async def flow(loop):
            inv = models.family_cls(g, fam)("inv0", port, comm, 1, 0)
            await inv.read_device_info()
            for sn in list(inv.sensors()) + list(inv.settings()):
                n0 = len(sim.log)
                role = "setting" if sn.id_ in {x.id_ for x in inv.settings()} and sn in tuple(inv.settings()) else "sensor"
                try:
                    await (inv.read_setting(sn.id_) if role == "setting" else inv.read_sensor(sn.id_))
                except (ValueError, g.InverterError):
                    pass
                items.append((role, sn.id_, sn.offset, sn.size_, [r[2] for r in sim.log[n0:]]))

        run = engine.run_custom({("inv0", port): sim}, flow, vtime_cap=5000, tx_cap=5000)
        framing = "tcp" if port == 502 else "rtu"
        case = {"named": True, "seed": spec["seed"]}
        if run.stop or run.error is not None:
            bad(part, framing, "named-reads-failed", f"{fam} port {port} comm {comm}: {run.stop or repr(run.error)}", case)
            continue
        for b in sim.bad:
            bad(part, framing, "undecodable-request", f"{fam} port {port} comm {comm}: simulator could not decode transmission #{b[0]}: {b[1]} ({b[2].hex()[:60]})", case)
        for t, n, req, raw in sim.log:
            part.evaluations += 1
            if req["reg"] == 0x9CED:
                part.count("dt_fallback_model_query")
            if req["comm"] != want_comm:
                bad(part, framing, "request-carries-wrong-arguments",
                    f"{fam} port {port} configured comm {want_comm}: transmission #{n} ({req['kind']} {req['reg']}) is addressed to {req['comm']}", case)
        for role, sid, off, size, reqs in items:
            # (whatever the id - calculated values and labels have no registers of their own -, a read on the wire asks for 1..125 registers)
            for r in reqs:
                if r["kind"] == "read" and not 1 <= r["count"] <= 125:
                    bad(part, framing, "request-carries-wrong-arguments",
                        f"{fam} {role} {sid}: the single read put a request for {r['count']} registers at {r['reg']} on the wire", case)
            if size <= 0:
                part.count("named_reads_of_calculated_ids")
                continue
            part.count("named_single_reads")
            # (block-served ids - calculated values, two-word bitmaps - poll whole blocks; a direct read must cover the item exactly)
            direct = [r for r in reqs if r["kind"] == "read" and r["reg"] == off]
            if len(reqs) == 1 and reqs[0]["kind"] == "read" and not direct:
                bad(part, framing, "request-carries-wrong-arguments", f"{fam} {role} {sid}@{off} ({size} bytes): single read transmitted {reqs[0]['reg']} x{reqs[0]['count']}", case)
            for r in direct:
                if len(reqs) == 1 and r["count"] != (size + 1) // 2:
                    bad(part, framing, "request-carries-wrong-arguments",
                        f"{fam} {role} {sid}@{off} ({size} bytes): the read on the wire asks for {r['count']} registers, the item occupies {(size + 1) // 2}", case)
        part.see(f"named|{fam}|{port}|{comm}")


def concurrent_and_padded(spec, part):
    """(a) two tasks poll one Modbus/TCP inverter object at the same time (shared command objects): consecutive transmissions still carry
    different transaction ids; (b) a one-byte setting is written (read-modify-write) while the firmware appends stray bytes to its read
    answers: the write on the wire is still the canonical single-register write of that register"""
    import asyncio
    from .. import models
    g = env.goodwe()
    for ka in (False, True):
        sim = models.family_sim("ET")
        sim.delay = 0.05

        async def flow(loop):
            inv = g.ET("inv0", 502, 0, 1, 1)
            inv.set_keep_alive(ka)
            await inv.read_device_info()
            await asyncio.gather(inv.read_runtime_data(), inv.read_runtime_data(), inv.read_runtime_data())
        run = engine.run_custom({("inv0", 502): sim}, flow, vtime_cap=600, tx_cap=600)
        part.evaluations += 1
        case = {"concpad": True}
        if run.stop or run.error is not None:
            bad(part, "tcp", "named-reads-failed", f"three overlapping polls on one Modbus/TCP object (keep_alive={ka}): {run.stop or repr(run.error)}", case)
            continue
        last = None
        for t, n, req, raw in sim.log:
            if last is not None and req["txid"] == last:
                bad(part, "tcp", "transaction-id-repeats", f"overlapping polls on one object (keep_alive={ka}): transmission #{n} repeats transaction id {last}", case)
                break
            last = req["txid"]
        for b in sim.bad:
            bad(part, "tcp", "undecodable-request", f"overlapping polls: {b[1]}", case)
        part.count("overlapping_polls_txids")
    # (a2) two callers ask one object for DIFFERENT things at the same time while transmissions get lost: whatever the retransmission
    #      bookkeeping does, every frame on the wire is one of the two operations and each caller that is served was served ITS operation
    for port in (8899, 502):
        for ka in (False, True):
            for lost in ((1,), (1, 2), (2,), (1, 3), (1, 2, 3)):
                for gap in (0.0, 0.2, 1.1):
                    sim = sims.ModbusSim("inv0")
                    for a_ in range(0x1000, 0x1010):
                        sim.regs[a_] = 0x1000 + (a_ & 0xF)
                    for a_ in range(0x2000, 0x2010):
                        sim.regs[a_] = 0x2000 + (a_ & 0xF)
                    seen_n = {"n": 0}
                    orig = sim.handle

                    def handle(req, kind, _o=orig, _s=seen_n, _lost=lost):
                        _s["n"] += 1
                        return None if _s["n"] in _lost else _o(req, kind)
                    sim.handle = handle
                    outs = {}

                    async def flow(loop):
                        inv = g.ET("inv0", port, 0, 1, 3)
                        inv.set_keep_alive(ka)

                        async def one(name, reg, count, delay):
                            await asyncio.sleep(delay)
                            try:
                                r = await inv._read_from_socket(inv._read_command(reg, count))
                                outs[name] = r.response_data().hex()
                            except Exception as e:      # noqa
                                outs[name] = type(e).__name__
                        await asyncio.gather(one("A", 0x1000, 1, 0.0), one("B", 0x2000, 2, gap))
                    run = engine.run_custom({("inv0", port): sim}, flow, vtime_cap=600, tx_cap=600)
                    part.evaluations += 1
                    framing = "rtu" if port == 8899 else "tcp"
                    case = {"concpad": True}
                    ctx = f"port {port} keep_alive={ka}: caller A reads 0x1000 x1, caller B (started {gap} s later) reads 0x2000 x2, transmissions {lost} lost"
                    if run.stop or run.error is not None:
                        bad(part, framing, "named-reads-failed", f"{ctx}: {run.stop or repr(run.error)}", case)
                        continue
                    ops_seen = [(r[2]["kind"], r[2]["reg"], r[2].get("count")) for r in sim.log]
                    foreign = [o for o in ops_seen if o not in (("read", 0x1000, 1), ("read", 0x2000, 2))]
                    if foreign or sim.bad:
                        bad(part, framing, "wire-operation-mismatch", f"{ctx}: frames on the wire that are neither operation: {foreign[:3]} {[b[1] for b in sim.bad][:2]}", case)
                    for name, op, want in (("A", ("read", 0x1000, 1), "1000"), ("B", ("read", 0x2000, 2), "20002001")):
                        if outs.get(name) == want and op not in ops_seen:
                            bad(part, framing, "wire-operation-mismatch", f"{ctx}: caller {name} was served although {op} never went out; wire: {ops_seen}", case)
                        elif outs.get(name) not in (want, "RequestFailedException"):
                            bad(part, framing, "wire-operation-mismatch", f"{ctx}: caller {name} got {outs.get(name)!r} (its registers hold {want}); wire: {ops_seen}", case)
                        elif outs.get(name) == want:
                            part.count("concurrent_callers_served_their_own_operation")
    for fam, port, t_, r_ in (("ET", 502, 2, 2), ("DT", 502, 3, 1), ("ET", 8899, 2, 3), ("DT", 8899, 1, 2)):
        sim = models.family_sim(fam)
        got = {}

        async def flow(loop):
            inv = await g.connect("inv0", port, None, 0, t_, r_)
            got["cls"] = type(inv).__name__
            got["n0"] = len(sim.log)
            await inv.read_runtime_data()
            try:
                await inv.read_setting("modbus-47000" if fam == "ET" else "modbus-40313")
            except g.InverterError:
                pass
        run = engine.run_custom({("inv0", port): sim}, flow, vtime_cap=600, tx_cap=600)
        part.evaluations += 1
        framing = "tcp" if port == 502 else "rtu"
        case = {"concpad": True}
        if run.stop or run.error is not None:
            bad(part, framing, "named-reads-failed", f"connect() without a family to a {fam} inverter on port {port}: {run.stop or repr(run.error)}", case)
            continue
        want_comm = 0xF7 if got.get("cls") == "ET" else 0x7F
        wrong = [r for r in sim.log[got["n0"]:] if r[2]["comm"] != want_comm]
        if wrong:
            bad(part, framing, "request-carries-wrong-arguments",
                f"object handed out by connect(timeout={t_}, retries={r_}) without a family ({got.get('cls')}, port {port}): {len(wrong)} frames addressed to unit "
                f"{wrong[0][2]['comm']} instead of the family default {want_comm}", case)
        else:
            part.count("auto_detected_object_frames")
    for transport_port in (502, 8899):
        sim = models.family_sim("ES")
        async def flow(loop):
            for _ in range(2):
                inv = g.ES("inv0", transport_port, 0, 1, 0)
                await inv.read_device_info()
                await inv.read_runtime_data()
        run = engine.run_custom({("inv0", transport_port): sim}, flow, vtime_cap=600, tx_cap=600)
        part.evaluations += 1
        case = {"concpad": True}
        if run.stop or run.error is not None or sim.bad:
            bad(part, "aa55", "undecodable-request",
                f"ES object on port {transport_port} ({'Modbus/TCP transport' if transport_port == 502 else 'UDP'}): AA55 commands are not decodable on the wire: "
                f"{(sim.bad[0][1] + ' ' + sim.bad[0][2].hex()[:40]) if sim.bad else (run.stop or repr(run.error))}", case)
        else:
            part.count("aa55_over_both_transports")
    # the DT family keeps its export limit in different registers per model line (documented register map): single-phase models (table of
    # serial-number tags in configs.py, transcribed from the documentation, not imported from goodwe.model) take a 32-bit value at
    # 40328..40329 written with one write-multiple, three-phase models a 16-bit value at 40336 written with one write-single
    from .. import configs
    for tag in configs.DOC_DT:
        for port in (8899, 502):
            sim = models.dt_sim(tag=tag)
            st = {}

            async def flow(loop):
                inv = g.DT("inv0", port, 0, 1, 0)
                await inv.read_device_info()
                st["n0"] = len(sim.log)
                await inv.set_grid_export_limit(2500)
            run = engine.run_custom({("inv0", port): sim}, flow, vtime_cap=600, tx_cap=600)
            part.evaluations += 1
            framing = "tcp" if port == 502 else "rtu"
            case = {"concpad": True}
            if run.stop or run.error is not None:
                bad(part, framing, "named-reads-failed", f"DT {tag} port {port}: set_grid_export_limit(2500) ended with {run.stop or repr(run.error)}", case)
                continue
            ops = [(r[2]["kind"], r[2]["reg"], r[2].get("value"), bytes(r[2].get("data") or b"").hex()) for r in sim.log[st["n0"]:] if r[2]["kind"] != "read"]
            single = tag in configs.DOC_SINGLE
            want = [("multi", 40328, None, "000009c4")] if single else [("write", 40336, 2500, "")]
            if ops != want:
                bad(part, framing, "wire-operation-mismatch",
                    f"DT inverter with serial tag {tag} ({'single' if single else 'three'}-phase line): set_grid_export_limit(2500) put {ops} on the wire, "
                    f"the register map asks for {want}", case)
            else:
                part.count("dt_export_limit_by_model_line")
    # connect(host, port, family, comm_addr, ...): the object handed out addresses every frame to THAT unit
    for fam in ("ET", "DT", "EH", "MS"):
        for port in (8899, 502):
            for comm in (0x21, 0xFE, 0x01):
                simfam = "ET" if fam in ("ET", "EH") else "DT"
                sim = models.family_sim(simfam)
                st = {}

                async def flow(loop):
                    inv = await g.connect("inv0", port, fam, comm, 1, 0)
                    st["n0"] = 0
                    await inv.read_runtime_data()
                    try:
                        await inv.read_setting("grid_export_limit")
                    except (ValueError, g.InverterError):
                        pass
                run = engine.run_custom({("inv0", port): sim}, flow, vtime_cap=600, tx_cap=600)
                part.evaluations += 1
                framing = "tcp" if port == 502 else "rtu"
                case = {"concpad": True}
                if run.stop or run.error is not None:
                    bad(part, framing, "named-reads-failed", f"connect(family={fam!r}, comm_addr={comm}) port {port}: {run.stop or repr(run.error)}", case)
                    continue
                wrong = [r for r in sim.log if r[2]["comm"] != comm]
                if wrong or not sim.log:
                    bad(part, framing, "request-carries-wrong-arguments",
                        f"connect('inv0', {port}, family={fam!r}, comm_addr=0x{comm:02x}): {len(wrong)} of {len(sim.log)} frames are addressed to unit "
                        f"0x{wrong[0][2]['comm']:02x}" if wrong else "no frame seen", case)
                else:
                    part.count("connect_with_family_and_comm_addr")
    # the inverter clock: write_setting('time', t) carries year-2000, month, day, hour, minute, second of t - also when t has a sub-second
    # part (datetime.now()) and at the ends of the ranges; every byte on the wire must be a possible clock value
    import datetime as _dt
    stamps = [_dt.datetime(2024, 5, 17, 12, 30, 59, 600000), _dt.datetime(2024, 12, 31, 23, 59, 59, 999999), _dt.datetime(2025, 1, 1, 0, 0, 0, 1),
              _dt.datetime(2024, 2, 29, 7, 8, 9, 500000), _dt.datetime(2030, 6, 15, 23, 59, 58, 499999), _dt.datetime(2024, 5, 17, 12, 30, 15)]
    for fam, port in (("ET", 8899), ("ET", 502), ("DT", 8899), ("DT", 502), ("ES", 8899)):
        for t_ in stamps:
            sim = models.family_sim(fam)
            st = {}

            async def flow(loop):
                inv = models.family_cls(g, fam)("inv0", port, 0, 1, 0)
                await inv.read_device_info()
                st["w0"], st["a0"] = len(sim.writes), len(getattr(sim, "aa55_log", []))
                await inv.write_setting("time", t_)
            run = engine.run_custom({("inv0", port): sim}, flow, vtime_cap=600, tx_cap=600)
            part.evaluations += 1
            framing = "aa55" if fam == "ES" else ("tcp" if port == 502 else "rtu")
            case = {"concpad": True}
            if run.stop or run.error is not None:
                bad(part, framing, "named-reads-failed", f"{fam} port {port}: write_setting('time', {t_!r}) ended with {run.stop or repr(run.error)}", case)
                continue
            want = bytes([t_.year - 2000, t_.month, t_.day, t_.hour, t_.minute, t_.second])
            if fam == "ES":
                sent = [pl for (_t, _n, c, pl) in sim.aa55_log[st["a0"]:] if c == "0302"]
                got = bytes(sent[0][:6]) if sent else None
            else:
                ws = sim.writes[st["w0"]:]
                got = b"".join(v.to_bytes(2, "big") for v in ws[0][2])[:6] if ws else None
            if got != want:
                bad(part, framing, "request-carries-wrong-arguments",
                    f"{fam} port {port}: write_setting('time', {t_.isoformat()}) put the clock bytes {got.hex() if got else None} on the wire, the argument is "
                    f"{want.hex()} (year-2000, month, day, hour, minute, second)", case)
            else:
                part.count("clock_writes_checked")
    # every ES setter sequence (each operation mode on the three firmware generations, export limit, DoD, eco groups, raw settings):
    # all AA55 / Modbus frames the object puts on the wire must decode (header, length byte = payload length, checksum / CRC)
    for transport_port in (8899, 502):
        for fw in (b"02525", b"1414E", b"2225F", b"0707A"):
            sim = models.es_sim(fw=fw)
            done = {"calls": 0}

            async def flow(loop):
                inv = g.ES("inv0", transport_port, 0, 1, 0)
                await inv.read_device_info()
                for mode in await inv.get_operation_modes(True):
                    for args in ((), (37, 61)):
                        try:
                            await inv.set_operation_mode(mode, *args)
                            done["calls"] += 1
                        except (ValueError, g.InverterError):
                            pass
                for call in (lambda: inv.set_grid_export_limit(1234), lambda: inv.set_ongrid_battery_dod(33), lambda: inv.get_operation_mode(),
                             lambda: inv.write_setting("eco_mode_1_switch", 1), lambda: inv.read_settings_data(),
                             lambda: inv.write_setting("grid_export", 1), lambda: inv.read_setting("eco_mode_2")):
                    try:
                        await call()
                        done["calls"] += 1
                    except (ValueError, g.InverterError):
                        pass
            run = engine.run_custom({("inv0", transport_port): sim}, flow, vtime_cap=3000, tx_cap=3000)
            part.evaluations += 1
            case = {"concpad": True}
            if run.stop or (run.error is not None and not isinstance(run.error, (ValueError, g.InverterError))):
                bad(part, "aa55", "named-reads-failed", f"ES firmware {fw.decode()} port {transport_port}: setter sweep ended with {run.stop or repr(run.error)}", case)
            for b in sim.bad:
                bad(part, "aa55", "undecodable-request",
                    f"ES firmware {fw.decode()} on port {transport_port}: a frame of the setter sweep (operation modes / export limit / DoD / eco groups) is not "
                    f"decodable: {b[1]} ({b[2].hex()[:40]})", case)
            if not sim.bad and done["calls"] >= 6:
                part.count("es_setter_sequences_decoded")
    for port in (8899, 502):
        for stray in (b"\x00", b"\xab\xcd", b"\xff\xff\xff"):
            sim = models.family_sim("ET")
            sim.stray = stray
            st = {}

            async def flow(loop):
                inv = g.ET("inv0", port, 0, 1, 0)
                await inv.read_device_info()
                sw = next(x for x in inv.settings() if x.id_ == "eco_mode_1_switch")
                st["reg"] = sw.offset
                sim.regs[sw.offset] = 0x007F
                st["n0"] = len(sim.log)
                await inv.write_setting("eco_mode_1_switch", -1)
            run = engine.run_custom({("inv0", port): sim}, flow, vtime_cap=600, tx_cap=600)
            part.evaluations += 1
            framing = "tcp" if port == 502 else "rtu"
            case = {"concpad": True}
            if run.stop or run.error is not None:
                bad(part, framing, "named-reads-failed", f"write of a one-byte setting with read answers padded by {stray.hex()}: {run.stop or repr(run.error)}", case)
                continue
            for b in sim.bad:
                bad(part, framing, "undecodable-request", f"read answers padded by {stray.hex()}: transmission #{b[0]} cannot be decoded: {b[1]} ({b[2].hex()[:60]})", case)
            ops = [(r[2]["kind"], r[2]["reg"], r[2].get("count"), r[2].get("value")) for r in sim.log[st["n0"]:]]
            want = [("read", st["reg"], 1, None), ("write", st["reg"], None, -129)]        # 0xFF7F as a signed word
            if ops != want and not sim.bad:
                bad(part, framing, "wire-operation-mismatch",
                    f"write_setting('eco_mode_1_switch', -1) with read answers padded by {stray.hex()}: on the wire {ops}, expected {want}", case)
            else:
                part.count("rmw_with_padded_read_answers")


def plan(tier, seed):
    specs = []
    step = 8192
    for lo in range(-32768, 32768, step):
        specs.append({"mode": "ctor", "what": "values", "lo": lo, "hi": lo + step, "seed": f"{seed}:C03:v:{lo}"})
    if tier == "quick":
        specs.append({"mode": "ctor", "what": "registers", "n": 4096, "seed": f"{seed}:C03:r"})
    else:
        for lo in range(0, 65536, 8192):
            specs.append({"mode": "ctor", "what": "registers", "all": True, "lo": lo, "hi": lo + 8192, "n": 4096,
                          "seed": f"{seed}:C03:r:{lo}"})
    specs.append({"mode": "ctor", "what": "grid", "seed": f"{seed}:C03:g"})
    specs.append({"mode": "txid", "n": 200000 if tier == "quick" else 400000})
    specs.append({"mode": "named", "seed": f"{seed}:C03:named"})
    specs.append({"mode": "concpad"})
    for i in range(4 if tier == "quick" else 32):
        specs.append({"mode": "wire", "seed": f"{seed}:C03:w:{i}", "n": 250 if tier == "quick" else 8000})
    return specs


def run_shard(spec):
    part = Part()
    contracts.install_request_contracts(contracts.Sink(part))
    if spec["mode"] == "ctor":
        constructors(spec, part)
    elif spec["mode"] == "txid":
        txid_history(spec, part)
    elif spec["mode"] == "named":
        named_reads(spec, part)
    elif spec["mode"] == "concpad":
        concurrent_and_padded(spec, part)
    else:
        wire_ops(spec, part)
    if part.evaluations and not part.samples:
        part.sample({"mode": spec["mode"], "what": spec.get("what"), "evaluations": part.evaluations})
    return part


def replay(case):
    g = env.goodwe()
    part = Part()
    contracts.install_request_contracts(contracts.Sink(part))
    if case.get("concpad"):
        concurrent_and_padded({}, part)
    elif case.get("named"):
        named_reads({"seed": case["seed"]}, part)
    elif case.get("txid"):
        txid_history({"n": case["n"] + 10}, part)
    elif case.get("wire"):
        wire_ops({"seed": case["seed"], "n": case["i"] + 1}, part)
    elif case.get("protocol_object"):
        pcls = g.protocol.UdpInverterProtocol if case["framing"] == "rtu" else g.protocol.TcpInverterProtocol
        fr = pcls("inv", 8899, case["comm"], 1, 1).read_command(100, 3).request_bytes()
        d = (rc.parse_rtu_request if case["framing"] == "rtu" else rc.parse_tcp_request)(fr)
        if d["comm"] != case["comm"]:
            part.violate(f"C03/{case['framing']}/request-carries-wrong-arguments", f"configured comm {case['comm']}, on the wire {d['comm']}", case)
    elif case.get("framing") == "aa55":
        v = case["val"]
        chk_aa55(g, part, case["kind"], case["reg"], bytes.fromhex(v) if (case["kind"] == "multi") else v)
    elif "builder" in case:
        fn = getattr(g.modbus, case["builder"])
        v = bytes.fromhex(case["val"]) if isinstance(case["val"], str) else case["val"]
        fn(case["comm"], {"read": 3, "write": 6, "multi": 16}["multi" if isinstance(v, bytes) else "write"], case["reg"], v)
    else:
        v = case["val"]
        chk_modbus(g, part, case["framing"], case["kind"], case["comm"], case["reg"], bytes.fromhex(v) if case["kind"] == "multi" else v)
    return [{"key": v["key"], "msg": v["msg"]} for v in part.violations]
