"""C11  Decoding is total: every sensor is reported, undecodable values become None (exploration)."""
from __future__ import annotations

import random

from .. import blocks, engine, env, models
from ..runner import Part

PROPERTY = "C11"
LEVEL = "exploration"
RULE = ("(1) every runtime block of ET/DT/ES (both Modbus framings; ES blocks of every announced length 0..255) filled all-zero, "
        "all-0xFF, sentinel mixes, mixed and random is decoded by the real Inverter._map_response: the result must hold every id "
        "and nothing but ValueError may be raised by any Sensor.read; (2) every schedule / eco-mode / timestamp setting is fed ALL "
        "65536 contents of each of its 16-bit fields (others: a valid base pattern and random) through read_value - every fifth also by a fresh object, undecodable contents a second time by the same object (the verdict depends on the bytes only); (3) end-to-end "
        "read_runtime_data() (all families) and read_settings_data() (ET, ES) plus single read_setting()/read_sensor() calls "
        "against simulated inverters with generated register contents (bulk settings read twice, single setting registers refused, battery dropping out between polls); distinct = distinct (family, block or setting, content "
        "style / field index, outcome class) tuples")
ASSUMPTIONS = ["DT.read_settings_data() is outside the property's wording (it names ET and ES for the bulk settings read)",
               "a key may map to None; the key set must contain every id of the covered sensors/settings"]
MUST = ["settings_registers_answered_with_other_exceptions", "timestamp_fields_checked", "source_constants_as_register_contents", "single_setting_reads_vs_own_registers", "repeated_polls_all_ids", "time_field_ranges_checked", "settings_none_pattern_checked", "undecodable_value_read_twice", "stateful_decode_compared", "settings_registers_refused", "single_reads_after_capability_change", "blocks_decoded", "none_values_seen", "valueerror_paths_seen", "field_sweeps", "end_to_end_runtime",
        "end_to_end_settings", "single_reads", "es_short_blocks"]
EXHAUSTIVE = {"quick": False, "thorough": True}


def decode_block(g, part, block, payload, tag):
    MR = g.inverter.Inverter._map_response
    fam = block["family"]
    resp = blocks.fast_response(g, block, payload)
    part.evaluations += 1
    case = {"family": fam, "block": block["name"], "framing": block["framing"], "payload": payload.hex(), "tag": tag}
    try:
        d = MR(resp, block["sensors"])
    except Exception as e:      # noqa
        # attribute it to a sensor
        who = "?"
        for sn in block["sensors"]:
            try:
                sn.read(blocks.fast_response(g, block, payload))
            except ValueError:
                pass
            except Exception:   # noqa
                who = f"{sn.id_}({type(sn).__name__})"
                break
        part.violate(f"C11/decode/{type(e).__name__}",
                     f"{fam} {block['name']} block ({tag}): decoding aborted by {type(e).__name__}: {e} in sensor {who}", case)
        return
    part.count("blocks_decoded")
    missing = {sn.id_ for sn in block["sensors"]} - set(d)
    if missing:
        part.violate("C11/decode/missing-ids", f"{fam} {block['name']}: ids {sorted(missing)[:5]} missing from the result", case)
    if any(v is None for v in d.values()):
        part.count("none_values_seen")
    part.see(f"block|{fam}|{block['framing']}|{block['name']}|{tag}|{sum(v is None for v in d.values()) > 0}")


def blocks_part(spec, part):
    g = env.goodwe()
    rnd = random.Random(spec["seed"])
    for fam, port in (("ET", 8899), ("ET", 502), ("DT", 8899), ("DT", 502), ("ES", 8899)):
        for block in blocks.family_blocks(g, fam, port):
            for style in ("zero", "ff", "sentinel", "mixed", "random"):
                for _ in range(1 if style in ("zero", "ff") else spec["n"]):
                    n = block["nbytes"]
                    decode_block(g, part, block, blocks.styled_payload(rnd, n, style), style)
            # boundary-seeking contents: every integer constant of the source under test (small ones and the 16/32-bit limits, with
            # neighbours and negations) held by EVERY word / every double word (both alignments) of the block at once
            hv = [v for v in env.harvest_ints() if abs(v) <= 1100 or abs(v) in (32766, 32767, 32768, 32769, 65534, 65535, 65536)]
            for k, v in enumerate(hv):
                if k % spec.get("hv_stride", 1) != spec.get("hv_phase", 0) % spec.get("hv_stride", 1):
                    continue
                n = block["nbytes"]
                w, dw = (v & 0xFFFF).to_bytes(2, "big"), (v & 0xFFFFFFFF).to_bytes(4, "big")
                for pl in ((w * (n // 2 + 1))[:n], (dw * (n // 4 + 1))[:n], (dw[2:] + dw * (n // 4 + 1))[:n]):
                    decode_block(g, part, block, pl, "harvest-uniform")
                    part.count("source_constants_as_register_contents")
            for _ in range(spec["n"]):
                decode_block(g, part, block, blocks.styled_payload(rnd, block["nbytes"], "harvest"), "harvest")
            if fam == "ES":
                for ln in range(0, 256):
                    for style in ("ff", "random", "zero"):
                        decode_block(g, part, block, blocks.styled_payload(rnd, ln, style), f"len{ln // 32}")
                        part.count("es_short_blocks")
            else:
                # shorter-than-asked and float specials
                for ln in (0, 2, block["nbytes"] // 2, block["nbytes"] - 2):
                    decode_block(g, part, block, blocks.styled_payload(rnd, ln, "random"), "short")
                for sn in block["sensors"]:
                    if type(sn).__name__ == "Float":
                        for spec_f in (b"\x7f\x80\x00\x00", b"\xff\x80\x00\x00", b"\x7f\xc0\x00\x00", b"\x7f\x7f\xff\xff", b"\xff\x7f\xff\xff", b"\x00\x00\x00\x01"):
                            pl = bytearray(blocks.styled_payload(rnd, block["nbytes"], "zero"))
                            p = blocks.pos_of(block, sn)
                            pl[p:p + 4] = spec_f
                            decode_block(g, part, block, bytes(pl), "float-special")


BASES = {8: [bytes.fromhex("0000173bffd8ff7f"), bytes.fromhex("3000300000640000"), bytes.fromhex("0600081e0014ff3e")],
         12: [bytes.fromhex("0000173bff7fffd800640000"), bytes.fromhex("300030000000006400640000"), bytes.fromhex("0000173bf97ffe7000500fff"),
              bytes.fromhex("0100020afc7f00c8005a0000"), bytes.fromhex("ffffffff55ffffff00640000")],
         6: [bytes([24, 5, 17, 12, 30, 15])]}


def fields_part(spec, part):
    g = env.goodwe()
    rnd = random.Random(spec["seed"])
    PR = g.protocol.ProtocolResponse
    S = g.sensor
    targets = [S.EcoModeV1("eco_mode_1", 47515, "x"), S.EcoModeV2("eco_mode_1", 47547, "x"),
               S.PeakShavingMode("peak_shaving_mode", 47589, "x"), S.Schedule("sched", 0, "x"), S.Timestamp("time", 45200, "x")]
    targets = [t for i, t in enumerate(targets) if i % spec["shards"] == spec["shard"] % spec["shards"] or spec["shards"] == 1]
    for sn in targets:
        size = sn.size_
        tname = type(sn).__name__
        for field in range(size // 2):
            if (field + spec["shard"]) % max(1, spec.get("fshards", 1)) != 0 and spec.get("fshards", 1) > 1:
                continue
            for base in BASES[size] + [bytes(rnd.randrange(256) for _ in range(size))]:
                vals = range(65536) if spec["full"] else sorted(set(range(0, 65536, 13)) | set(range(0x7F00, 0x8100)) | set(range(0xFF00, 0x10000)) | set(range(0, 0x200)) | {v << 8 for v in range(256)})
                ok = ve = 0
                for v in vals:
                    b = bytearray(base)
                    b[2 * field:2 * field + 2] = v.to_bytes(2, "big")
                    part.evaluations += 1
                    if v % 5 == 0:
                        # the verdict must depend on the bytes only, not on what this object decoded before
                        try:
                            type(sn)(sn.id_, sn.offset, sn.name).read_value(PR(bytes(b), None))
                            fresh = "ok"
                        except ValueError:
                            fresh = "ValueError"
                        except Exception:       # noqa
                            fresh = "other"
                    else:
                        fresh = None
                    try:
                        sn.read_value(PR(bytes(b), None))
                        ok += 1
                        if tname == "Timestamp":
                            # an impossible date or time of day (month 13, 30 February, 24:00, minute 60 ...) has no value
                            import calendar
                            y_, mo_, d_, h_, mi_, s_ = b[0:6]
                            possible = 1 <= mo_ <= 12 and 1 <= d_ <= calendar.monthrange(2000 + y_, mo_)[1] and h_ <= 23 and mi_ <= 59 and s_ <= 59
                            if not possible:
                                part.violate("C11/decode/impossible-date-accepted",
                                             f"Timestamp.read_value({bytes(b).hex()}) returned a value for 20{y_:02d}-{mo_}-{d_} {h_}:{mi_}:{s_}",
                                             {"field": True, "range": True, "type": tname, "bytes": bytes(b).hex()})
                            else:
                                part.count("timestamp_fields_checked")
                        if tname != "Timestamp":
                            # documented ranges of the time fields: hours 0..23 (48 = 'not set'), minutes 0..59; 12-byte groups also 0xFF = unset
                            hs, ms = (b[0], b[2]), (b[1], b[3])
                            extra = (255,) if size == 12 else ()
                            if any(h > 23 and h != 48 and h not in extra for h in hs) or any(m > 59 and m not in extra for m in ms):
                                part.violate("C11/decode/out-of-range-schedule-field-accepted",
                                             f"{tname}.read_value({bytes(b).hex()}) returned a value although a time field is out of range "
                                             f"(hours {hs}, minutes {ms})", {"field": True, "range": True, "type": tname, "bytes": bytes(b).hex()})
                            else:
                                part.count("time_field_ranges_checked")
                            # on/off byte: 8-byte groups 0 / 0xFF; 12-byte groups: schedule type t in 0..6 (off) or 0xFF - t (on), 0x55 = not set
                            oo = b[6] if size == 8 else b[4]
                            valid_oo = (0, 0xFF) if size == 8 else tuple(range(0, 7)) + tuple(range(0xF9, 0x100)) + (0x55,)
                            if oo not in valid_oo:
                                part.violate("C11/decode/undocumented-on-off-byte-accepted",
                                             f"{tname}.read_value({bytes(b).hex()}) returned a value although its on/off byte 0x{oo:02x} is none of the documented ones",
                                             {"field": True, "range": True, "type": tname, "bytes": bytes(b).hex()})
                        if fresh == "ValueError":
                            part.violate("C11/decode/undecodable-value-accepted-after-earlier-read",
                                         f"{type(sn).__name__}.read_value({bytes(b).hex()}) returned a value on an object that had decoded other "
                                         f"contents before, but raises ValueError on a fresh object",
                                         {"field": True, "type": type(sn).__name__, "bytes": bytes(b).hex()})
                        elif fresh == "ok":
                            part.count("stateful_decode_compared")
                    except ValueError:
                        ve += 1
                        if tname != "Timestamp" and field in (0, 1) and base in BASES[size]:
                            # a decodable base pattern whose start / end time was replaced by another time inside the documented ranges
                            h_, m_ = b[2 * field], b[2 * field + 1]
                            extra = (255,) if size == 12 else ()
                            if (h_ <= 23 or h_ == 48 or h_ in extra) and (m_ <= 59 or m_ in extra):
                                part.violate("C11/decode/in-range-schedule-field-refused",
                                             f"{tname}.read_value({bytes(b).hex()}) raised ValueError although the only field changed in a decodable group "
                                             f"is a time inside its documented range ({h_}:{m_})",
                                             {"field": True, "range": True, "type": tname, "bytes": bytes(b).hex()})
                        if fresh == "ValueError":
                            part.count("stateful_decode_compared")
                        if ve % 7 == 1:
                            # the same undecodable bytes read again by the same object (settings are polled over and over)
                            try:
                                sn.read_value(PR(bytes(b), None))
                                part.violate("C11/decode/undecodable-value-accepted-after-earlier-read",
                                             f"{type(sn).__name__}.read_value({bytes(b).hex()}) raised ValueError, the same object reading the "
                                             f"same bytes again returned a value",
                                             {"field": True, "twice": True, "type": type(sn).__name__, "bytes": bytes(b).hex()})
                            except ValueError:
                                part.count("undecodable_value_read_twice")
                            except Exception:       # noqa
                                pass
                    except Exception as e:      # noqa
                        part.violate(f"C11/decode/{type(e).__name__}",
                                     f"{type(sn).__name__}.read_value({bytes(b).hex()}) raised {type(e).__name__}: {e}",
                                     {"field": True, "type": type(sn).__name__, "bytes": bytes(b).hex()})
                part.count("field_sweeps")
                if ve:
                    part.count("valueerror_paths_seen")
                part.see(f"field|{type(sn).__name__}|{field}|{ok > 0}|{ve > 0}")
    part.sample({"mode": "field sweeps", "targets": [type(t).__name__ for t in targets], "evaluations": part.evaluations})


def e2e_part(spec, part):
    g = env.goodwe()
    rnd = random.Random(spec["seed"])
    for i in range(spec["n"]):
        fam = rnd.choice(("ET", "ET", "DT", "ES"))
        port = 8899 if fam == "ES" else rnd.choice((8899, 502))
        style = rnd.choice(("random", "mixed", "sentinel", "ff", "zero"))
        if fam == "ET":
            tag = rnd.choice(("ETU", "ETT", "EHU", "BTU", "HSB", "ESN"))
            refuse = [b for b in ("eco_v2", "peak_shaving") if rnd.random() < 0.3] + \
                [b for b in ("meter_ext", "meter_ext2", "mppt", "battery", "battery2") if rnd.random() < 0.2]
            sim = models.et_sim(tag=tag, rated=rnd.choice((5000, 10000, 20000, 30000)), rnd=rnd, style=style,
                                battery_mode=rnd.choice((0, 1, 2, 0xFFFF)), refused_blocks=refuse)
            for lo, hi in ((45127, 45134), (45200, 45202), (45246, 45288), (45350, 45358), (45482, 45482), (47000, 47010),
                           (47120, 47120), (47500, 47614), (47900, 47935)):
                models.fill_random(sim, lo, hi, rnd, style)
            if rnd.random() < 0.4:      # firmware that rejects single setting registers with ILLEGAL DATA ADDRESS
                for a in rnd.sample((47120, 45482, 45264, 47010, 47500, 47916, 45132), rnd.randrange(1, 4)):
                    sim.refused.append((a, a))
                part.count("settings_registers_refused")
            if rnd.random() < 0.4:      # ... or answers single setting registers with another exception code (busy, device failure): that
                for a in rnd.sample((47120, 45482, 45264, 47010, 47500, 47916, 45132, 47907), rnd.randrange(1, 3)):      # value is unknown (None), the rest decodes
                    sim.exc_map[(3, a)] = rnd.choice((4, 6, 1, 11))
                part.count("settings_registers_answered_with_other_exceptions")
        elif fam == "DT":
            sim = models.dt_sim(tag=rnd.choice(("DTU", "MSU", "DSN", "PSC")), rnd=rnd, style=style)
        else:
            sim = models.es_sim(rnd=rnd, style=style, runtime_len=rnd.choice((142, 142, 100, 60, 255, 0, 30)),
                                settings_len=rnd.choice((86, 86, 40, 0, 255)), fw=rnd.choice((b"02525", b"1414E", b"2225F")))
            for a in range(1793, 1809):
                sim.regs[a] = rnd.randrange(65536)
            for a in range(47547, 47571):
                sim.regs[a] = rnd.randrange(65536)
        out = {}
        if fam != "ES" and rnd.random() < 0.5:
            sim.zero_count_ok = True        # firmware that answers a read of zero registers with an empty payload instead of refusing it

        async def flow(loop):
            import copy
            inv = models.family_cls(g, fam)("inv0", port, 0, 1, 0)
            await inv.read_device_info()
            # (a poll in which a refused block is discovered may fail with RequestRejectedException: C15; the following ones must
            #  return every listed id again and again)
            for attempt in range(4):
                try:
                    out["rt"] = await inv.read_runtime_data()
                except g.exceptions.RequestRejectedException:
                    continue
                ids_now = {s.id_ for s in inv.sensors()}
                if ids_now - set(out["rt"]):
                    out["rt_ids"] = ids_now
                    break
                out["rt_ids"] = ids_now
                out["rt_polls"] = out.get("rt_polls", 0) + 1
            if "rt" not in out:
                raise RuntimeError("read_runtime_data() was rejected four times in a row")
            part.count("end_to_end_runtime")
            if out.get("rt_polls", 0) >= 3:
                part.count("repeated_polls_all_ids")
            if fam in ("ET", "ES"):
                out["st"] = await inv.read_settings_data()
                out["st_ids"] = {s.id_ for s in inv.settings()} | set(out["st"])
                part.count("end_to_end_settings")
                # what each setting's own registers decode to on their own (a copy of the setting object, nothing read before it)
                import copy
                PRr = g.protocol.ProtocolResponse
                exp = {}
                for st_ in inv.settings():
                    if st_.id_ not in out["st"] or getattr(st_, "size_", 0) <= 0:
                        continue
                    if fam == "ET" and any((3, a_) in sim.exc_map for a_ in range(st_.offset, st_.offset + (st_.size_ + 1) // 2)):
                        continue        # (answered with an exception frame: no expectation from the register content)
                    if fam == "ET":
                        own = sim.get_bytes(st_.offset, (st_.size_ + 1) // 2)
                        own = own[:st_.size_] if type(st_).__name__ != "ByteL" else own     # (ByteL skips the high byte itself)
                    elif st_.offset < 1000:
                        own = bytes(sim.settings[st_.offset:st_.offset + st_.size_])
                        if len(own) < st_.size_:
                            continue
                    else:
                        continue
                    try:
                        exp[st_.id_] = "value" if copy.copy(st_).read_value(PRr(own, None)) is not None else "none-or-value"
                    except ValueError:
                        exp[st_.id_] = "undecodable"
                    except Exception:       # noqa  (the field sweeps report those)
                        pass
                out["st_expect"] = exp
                again = await inv.read_settings_data()      # unchanged registers: same keys, same None pattern
                # (a setting the inverter refused with ILLEGAL DATA ADDRESS is dropped from settings() after the first read: documented)
                out["st_changed"] = sorted(k for k in out["st"] if k in again and (out["st"][k] is None) != (again[k] is None))
            # single-value calls: only ValueError may report undecodable content
            ids = [s.id_ for s in inv.settings()]
            rnd.shuffle(ids)
            singles = []
            by_id = {s.id_: s for s in inv.settings()}
            if fam == "ES":     # the eco-mode groups of the ES family go through a path of their own (AA55 register read / Modbus read)
                ids = [x for x in ids if x.startswith("eco_mode")][:5] + ids
            single_settings = []
            for sid in ids[:12]:
                # what the setting's own registers decode to on their own, right before the call
                st_ = by_id[sid]
                want = None
                if getattr(st_, "size_", 0) > 0 and fam in ("ET", "ES"):
                    if fam == "ET" or st_.offset >= 1000:
                        nreg = (st_.size_ + 1) // 2
                        own = None if sim.is_refused(st_.offset, nreg) or any((3, a_) in sim.exc_map for a_ in range(st_.offset, st_.offset + nreg)) \
                            else sim.get_bytes(st_.offset, nreg)
                        if own is not None and type(st_).__name__ != "ByteL":
                            own = own[:st_.size_]
                    else:
                        own = bytes(sim.settings[st_.offset:st_.offset + st_.size_])
                        own = own if len(own) == st_.size_ else None
                    if own is not None:
                        try:
                            want = "value" if copy.copy(st_).read_value(g.protocol.ProtocolResponse(own, None)) is not None else None
                        except ValueError:
                            want = "undecodable"
                        except Exception:       # noqa  (the field sweeps report those)
                            want = None
                try:
                    v_ = await inv.read_setting(sid)
                    singles.append((sid, "ok"))
                    single_settings.append((sid, want, "ok", str(v_)[:50]))
                except ValueError as e_:
                    singles.append((sid, "ValueError"))
                    single_settings.append((sid, want, "ValueError", str(e_)[:50]))
            out["single_settings"] = single_settings
            sids = [s.id_ for s in inv.sensors()]
            rnd.shuffle(sids)
            derived = [s.id_ for s in inv.sensors() if getattr(s, "size_", 1) == 0]      # calculated values and labels (served by a bulk read)
            for sid in derived + sids[:8]:
                try:
                    await inv.read_sensor(sid)
                    singles.append((sid, "ok"))
                except ValueError:
                    singles.append((sid, "ValueError"))
            if fam == "ET" and out["rt"].get("battery_mode"):
                listed = [x.id_ for x in inv.sensors() if x.id_.startswith("battery")]
                sim.regs[35184] = 0             # the battery drops out; the ids are still listed until the next poll
                rnd.shuffle(listed)
                for sid in listed[:6]:
                    try:
                        await inv.read_sensor(sid)
                        singles.append((sid, "ok"))
                    except ValueError:
                        singles.append((sid, "ValueError"))
                part.count("single_reads_after_capability_change")
            out["singles"] = singles

        run = engine.run_custom({("inv0", port): sim}, flow, vtime_cap=3000, tx_cap=3000)
        part.evaluations += 1
        case = {"e2e": True, "seed": spec["seed"], "i": i}
        if run.stop:
            part.violate("C11/e2e/hang", f"{fam}: {run.stop}", case)
            continue
        if run.error is not None:
            part.violate(f"C11/e2e/{type(run.error).__name__}",
                         f"{fam} port {port} ({style} contents): {type(run.error).__name__}: {str(run.error)[:120]}", case)
            continue
        if "rt" in out:
            miss = out["rt_ids"] - set(out["rt"])
            if miss:
                part.violate("C11/e2e/missing-ids", f"{fam}: read_runtime_data() lacks {sorted(miss)[:5]}", case)
            if any(v is None for v in out["rt"].values()):
                part.count("none_values_seen")
        if out.get("st_changed"):
            part.violate("C11/e2e/undecodable-setting-reported-on-second-read",
                         f"{fam}: settings {out['st_changed'][:4]} switched between None and a value on a second read_settings_data() of the same registers", case)
        for sid, what in out.get("st_expect", {}).items():
            got = out["st"].get(sid)
            part.count("settings_none_pattern_checked")
            if what == "undecodable" and got is not None:
                part.violate("C11/e2e/undecodable-setting-not-none",
                             f"{fam}: the registers of setting {sid!r} cannot be interpreted, yet read_settings_data() reports {str(got)[:60]!r} for it", case)
            elif what == "value" and got is None:
                part.violate("C11/e2e/decodable-setting-reported-none",
                             f"{fam}: the registers of setting {sid!r} decode to a value, yet read_settings_data() reports None", case)
        for sid, want, how, txt in out.get("single_settings", []):
            if want:
                part.count("single_setting_reads_vs_own_registers")
            if want == "undecodable" and how == "ok":
                part.violate("C11/e2e/undecodable-setting-read-as-value",
                             f"{fam}: the registers of setting {sid!r} cannot be interpreted, yet read_setting() returned {txt!r} instead of raising ValueError", case)
            elif want == "value" and how == "ValueError":
                part.violate("C11/e2e/decodable-setting-raises-valueerror",
                             f"{fam}: the registers of setting {sid!r} decode to a value and the inverter serves them, yet read_setting() raised ValueError({txt!r})", case)
        if "st" in out:
            miss = out["st_ids"] - set(out["st"])
            if miss:
                part.violate("C11/e2e/missing-setting-ids", f"{fam}: read_settings_data() lacks {sorted(miss)[:5]}", case)
        part.count("single_reads", len(out.get("singles", [])))
        if any(o == "ValueError" for _, o in out.get("singles", [])):
            part.count("valueerror_paths_seen")
        part.see(f"e2e|{fam}|{port}|{style}")
        if part.evaluations % 41 == 1:
            part.sample({"family": fam, "port": port, "style": style, "runtime_keys": len(out.get("rt", {})),
                         "none_values": sum(v is None for v in out.get("rt", {}).values()),
                         "settings_none": sum(v is None for v in out.get("st", {}).values()) if "st" in out else None,
                         "singles": out.get("singles", [])[:6]})


def plan(tier, seed):
    specs = []
    for i in range(4 if tier == "quick" else 16):
        specs.append({"mode": "blocks", "seed": f"{seed}:C11:B:{i}", "n": 60 if tier == "quick" else 1500,
                      "hv_stride": 4 if tier == "quick" else 16, "hv_phase": i})
    for i in range(5):
        specs.append({"mode": "fields", "seed": f"{seed}:C11:F:{i}", "full": tier != "quick", "shards": 5, "shard": i})
    for i in range(4 if tier == "quick" else 16):
        specs.append({"mode": "e2e", "seed": f"{seed}:C11:E:{i}", "n": 40 if tier == "quick" else 500})
    return specs


def run_shard(spec):
    part = Part()
    {"blocks": blocks_part, "fields": fields_part, "e2e": e2e_part}[spec["mode"]](spec, part)
    return part


def replay(case):
    g = env.goodwe()
    part = Part()
    if case.get("e2e"):
        e2e_part({"seed": case["seed"], "n": case["i"] + 1}, part)
    elif case.get("field"):
        S = g.sensor
        cls = getattr(S, case["type"])
        sn = cls("x", 0, "x")
        try:
            sn.read_value(g.protocol.ProtocolResponse(bytes.fromhex(case["bytes"]), None))
        except ValueError:
            try:
                sn.read_value(g.protocol.ProtocolResponse(bytes.fromhex(case["bytes"]), None))
                return [{"key": "C11/decode/undecodable-value-accepted-after-earlier-read", "msg": "second read of the same bytes returned a value"}]
            except ValueError:
                pass
        except Exception as e:      # noqa
            return [{"key": f"C11/decode/{type(e).__name__}", "msg": str(e)}]
    else:
        for block in blocks.family_blocks(g, case["family"], 502 if case["framing"] == "tcp" else 8899):
            if block["name"] == case["block"]:
                decode_block(g, part, block, bytes.fromhex(case["payload"]), case["tag"])
    return [{"key": v["key"], "msg": v["msg"]} for v in part.violations]
