"""C20  Inverter objects are independent; returned values do not change afterwards (exploration)."""
from __future__ import annotations

import itertools
import json
import os
import random
import subprocess
import sys
import tempfile

from .. import engine, env, models
from ..runner import Part

PROPERTY = "C20"
LEVEL = "exploration"
RULE = ("two inverter objects (all ordered pairs of 8 templates: ET 205 eco-v2 / ET with undecodable group / ET 745 platform / ET "
        "eco-v1 / DT / ES v1 / ES v2 / ES v2 with undecodable group; UDP and TCP) each with its own simulated inverter and register "
        "contents run a sequence of <= 4 calls from {read_runtime_data, read/write of each setting kind, set_operation_mode, "
        "get_operation_mode, read_settings_data}; per scenario the two SOLO transcripts and several INTERLEAVED transcripts (call-level "
        "merges: A-then-B, B-then-A, alternating, random; and concurrent tasks with response latency so that one object's multi-step "
        "call is interleaved inside by the other's; also with inverters that answer every request in two pieces, and with one object that has ~65 500 Modbus/TCP requests behind it) are each produced in a FRESH interpreter (the state under test is "
        "process-global); per object the requests seen by its simulator (Modbus/TCP transaction id masked) and the results must "
        "equal the solo transcript; every returned value is snapshotted (str + fields) at return time and re-checked at the end; "
        "distinct = distinct (template pair, call sequences, interleaving) tuples")
ASSUMPTIONS = ["results are compared by type name, str() and (for eco-mode / schedule values) their public fields",
               "each transcript runs in its own interpreter started by the check (subprocess per transcript)"]
MUST = ["pairs_with_settings_one_unit_refuses", "pairs_with_an_unreachable_inverter", "values_kept_while_registers_change", "same_model_different_capabilities_pairs", "retransmitting_pairs", "transcripts", "interleavings_compared", "concurrent_interleavings", "snapshots_checked", "eco_values_snapshotted",
        "cross_family_pairs", "same_template_pairs", "requests_compared", "concurrent_with_fragmented_answers", "long_history_pairs", "same_host_pairs", "drifting_measurements_pairs"]
EXHAUSTIVE = {"quick": False, "thorough": False}

TEMPLATES = ["ET205", "ET205g", "ET205u", "ET745", "ETv1", "ETf", "ETc", "ETr", "DT", "DTu", "DTc", "DTn", "ESv1", "ESv2", "ESv2g", "ESe", "ESs"]


# ---- worker side: one transcript per interpreter -------------------------------------------------------------------
def build_sim(tpl, seed, owner):
    rnd = random.Random(seed)
    if tpl.startswith("ET"):
        tag = "ETT" if tpl == "ET745" else "ETU"
        # (ETr: the same model NAME as the others, but this unit's firmware refuses the optional runtime blocks)
        sim = models.et_sim(owner, tag=tag, refused_blocks=["eco_v2", "peak_shaving"] if tpl == "ETv1" else
                            (["meter_ext2", "meter_ext", "mppt", "battery"] if tpl == "ETr" else []), rnd=rnd,
                            style="ff" if tpl == "ETf" else "random", **({"rated": 20000} if tpl == "ETr" else {}))
        typ = 6 if tpl == "ET745" else 0
        for gi, base in enumerate((47547, 47553, 47559, 47565)):
            onoff = rnd.choice((typ, 255 - typ))
            power = rnd.randrange(-100, 101) * (10 if typ == 6 else 1)
            b = bytes([rnd.randrange(24), rnd.randrange(60), rnd.randrange(24), rnd.randrange(60), onoff, rnd.choice((0x7F, 0x15, 0))]) + \
                power.to_bytes(2, "big", signed=True) + rnd.randrange(0, 101).to_bytes(2, "big") + (0x0FFF if typ == 6 else 0).to_bytes(2, "big")
            if tpl == "ET205g" and gi == 0:
                b = bytes([99, 99, 99, 99]) + b[4:]
            if tpl == "ET205u" and gi == 0:       # group 1 never configured: schedule type NOT_SET (0x55), power 0
                b = bytes([0, 0, 0, 0, 0x55, 0, 0, 0, 0, 100, 0, 0])
            sim.set_bytes(base, b)
        for gi, base in enumerate((47515, 47519, 47523, 47527)):
            sim.set_bytes(base, bytes([rnd.randrange(24), rnd.randrange(60), rnd.randrange(24), rnd.randrange(60)]) +
                          rnd.randrange(-100, 101).to_bytes(2, "big", signed=True) + bytes([rnd.choice((0, 0xFF)), rnd.choice((0x7F, 0x2A))]))
        sim.regs[47000] = rnd.choice((0, 2, 3))
        sim.regs[47510] = rnd.randrange(0, 10000)
        sim.regs[45356] = rnd.randrange(0, 100)
        sim.set_bytes(45200, bytes([24, 5, 17, 12, 30, 15]))
        if tpl == "ETs":                # same model name, but this unit's firmware refuses some SETTING registers
            sim.refused = list(sim.refused) + [(45356, 45356), (47509, 47510), (47000, 47000)]
        if tpl == "ETc":                # the inverter's clock was never set: an impossible date in the runtime block
            sim.set_bytes(35100, bytes(6))
        return sim
    if tpl in ("DT", "DTu", "DTc", "DTn", "DTs"):
        # (DTn: same model name, no smart meter attached: the meter block is refused)
        sim = models.dt_sim(owner, tag=rnd.choice(("DTU", "DSN")), rnd=rnd, style="random", refused_blocks=["meter"] if tpl == "DTn" else [])
        if tpl == "DTs":                # same model name, older firmware: the shadow-scan and hardware export-limit settings are refused
            sim.refused = list(sim.refused) + [(40326, 40326), (40345, 40362)]
            for a in (40326, 40345, 40347, 40352, 40353, 40362):
                sim.regs[a] = rnd.randrange(1, 100)
        if tpl == "DTc":
            sim.set_bytes(30100, bytes(6))
        if tpl == "DTu":                # undefined (all-ones) counters and values on this inverter
            for a in list(range(30195, 30201)) + list(range(30127, 30148)):
                sim.regs[a] = 0xFFFF
        sim.regs[40328] = rnd.randrange(0, 100)
        sim.regs[40336] = rnd.randrange(0, 100)
        return sim
    v2 = tpl != "ESv1"
    if tpl in ("ESe", "ESs"):
        # the SAME firmware string on two model lines: an EM unit (eco-mode v2 from DSP 11 on) and an ES unit (only from DSP 22 on)
        sim = models.es_sim(owner, tag="EMU" if tpl == "ESe" else "ESU", fw=b"1212E", rnd=rnd, style="random")
    else:
        sim = models.es_sim(owner, fw=b"2225F" if v2 else b"02525", rnd=rnd, style="random")
    sim.settings[66:68] = rnd.choice((0, 2, 3)).to_bytes(2, "big")
    for gi, base in enumerate((1793, 1797, 1801, 1805)):
        b = bytes([rnd.randrange(24), rnd.randrange(60), rnd.randrange(24), rnd.randrange(60)]) + \
            rnd.randrange(-100, 101).to_bytes(2, "big", signed=True) + bytes([rnd.choice((0, 0xFF)), rnd.choice((0x7F, 0x2A))])
        for i in range(4):
            sim.setreg(base + i, int.from_bytes(b[2 * i:2 * i + 2], "big"))
    for gi, base in enumerate((47547, 47553, 47559, 47565)):
        typ = rnd.choice((0, 0, 3))
        b = bytes([rnd.randrange(24), rnd.randrange(60), rnd.randrange(24), rnd.randrange(60), rnd.choice((typ, 255 - typ)), 0x7F]) + \
            rnd.randrange(-100, 101).to_bytes(2, "big", signed=True) + rnd.randrange(0, 101).to_bytes(2, "big") + b"\x00\x00"
        if tpl == "ESv2g" and gi == 0:
            b = bytes([77, 77, 77, 77]) + b[4:]
        sim.set_bytes(base, b)
    return sim


def snapshot(v):
    t = type(v).__name__
    fields = None
    if hasattr(v, "start_h") and hasattr(v, "on_off"):
        fields = [getattr(v, k, None) for k in ("start_h", "start_m", "end_h", "end_m", "power", "on_off", "day_bits", "days", "soc",
                                                   "month_bits", "months")] + [getattr(getattr(v, "schedule_type", None), "name", None)]
    if isinstance(v, dict):
        return [t, sorted((k, snapshot(x)) for k, x in v.items())]
    try:
        s = str(v)
    except Exception as e:      # noqa
        s = f"<str failed: {type(e).__name__}>"
    return [t, s, fields]


def worker(spec):
    """Runs ONE transcript (solo or interleaved) in this fresh interpreter and returns what each object saw."""
    import asyncio
    g = env.goodwe()
    OM = g.OperationMode
    objs = spec["objects"]
    sims_, invs = [], []
    peers = {}
    for i, o in enumerate(objs):
        sim = build_sim(o["template"], o["seed"], f"inv{i}")
        sim.delay = spec.get("latency", 0.0)
        sim.drift = o.get("drift") if o.get("drift") == "meter" else bool(o.get("drift"))
        if o.get("frag"):           # this inverter answers in two pieces (same in its solo transcript)
            sim.frag = tuple(o["frag"])
        if o.get("lossy"):          # the first `lossy` transmissions of every request towards this inverter are lost (same in its solo transcript)
            def on_request(s_, kind, frame, n, _o=sim.on_request, _st={"last": None, "n": 0}, _k=o["lossy"], _strip=(o["port"] == 502), _sim=sim):
                key = bytes(frame[2:]) if _strip and frame[0:4] != b"\xaa\x55\xc0\x7f" else bytes(frame)
                if key != _st["last"]:
                    _st["last"], _st["n"] = key, 0
                _st["n"] += 1
                if _st["n"] <= _k:
                    _sim.loop.ev("sim_lost", _sim.owner, n)
                    return None
                return _o(s_, kind, frame, n)
            sim.on_request = on_request
        sims_.append(sim)
        peers[(o.get("host", f"inv{i}"), o["port"])] = sim
    results = [[] for _ in objs]
    kept = []

    def conv(a):
        if isinstance(a, dict) and "mode" in a:
            return OM[a["mode"]]
        if isinstance(a, dict) and "hex" in a:
            return bytes.fromhex(a["hex"])
        return a

    async def call(i, c):
        inv = invs[i]
        if c[0] == "__setregs__":           # not a library call: the inverter's registers change (somebody reconfigured it at its display)
            sims_[i].set_bytes(c[1], bytes.fromhex(c[2]))
            results[i].append(["ok", None])
            return
        try:
            v = await getattr(inv, c[0])(*[conv(a) for a in c[1:]])
            snap = snapshot(v)
            if v is not None and not isinstance(v, (int, float, str, bool)):
                kept.append((i, len(results[i]), v, snap))
            results[i].append(["ok", snap])
        except Exception as e:      # noqa
            results[i].append([type(e).__name__, str(getattr(e, "message", "") or e)[:80], getattr(e, "consecutive_failures_count", None)])

    async def flow(loop):
        fams = {"ET": g.ET, "DT": g.DT, "ES": g.ES}
        for i, o in enumerate(objs):
            # only the objects that take part in this transcript exist in this interpreter ("run alone" means alone)
            invs.append(fams[o["template"][:2]](o.get("host", f"inv{i}"), o["port"], o.get("comm", 0), 1, o.get("retries", 0)) if i in spec["active"] else None)
        # device info always first, in object order (identical in solo and interleaved runs)
        for i in spec["active"]:
            await invs[i].read_device_info()
        for i in spec["active"]:
            if objs[i].get("silent"):       # this inverter stops answering once it has been identified
                sims_[i].silent = True
            if objs[i].get("endpoint_fail"):    # from now on this object's socket cannot be opened (route to ITS inverter is down), k times
                loop.connect_scripts[sims_[i].owner] = ["unreach"] * int(objs[i]["endpoint_fail"])
        for i in spec["active"]:
            # an object with a long history: it has already built this many Modbus/TCP requests (what every transmission does)
            for _ in range(objs[i].get("pre_tx", 0)):
                try:
                    invs[i]._protocol.read_command(35100, 1).request_bytes()
                except Exception:       # noqa  (A's own history is C03's subject; here only what it does to B counts)
                    pass
        if spec["schedule"] == "concurrent":
            async def seq(i):
                await asyncio.sleep(spec["offsets"][i])
                for c in objs[i]["calls"]:
                    await call(i, c)
            await asyncio.gather(*[seq(i) for i in spec["active"]])
        else:
            pos = [0] * len(objs)
            for i in spec["schedule"]:
                await call(i, objs[i]["calls"][pos[i]])
                pos[i] += 1

    run = engine.run_custom(peers, flow, vtime_cap=50000, tx_cap=100000)
    out = {"stop": run.stop, "error": repr(run.error) if run.error is not None else None, "objects": []}
    changed = []
    for (i, k, v, snap) in kept:
        now = snapshot(v)
        if now != snap:
            changed.append({"object": i, "call": k, "at_return": snap, "at_end": now})
    for i, o in enumerate(objs):
        sim = sims_[i]
        reqs = []
        for t, n, req, raw in sim.log:
            r = bytes(raw)
            reqs.append(("m", (r[2:] if o["port"] == 502 else r).hex()))
        for t, n, c, pl in getattr(sim, "aa55_log", []):
            reqs.append(("a", c + pl.hex()))
        # order of modbus vs aa55 entries: rebuild from the wire log
        wire = [bytes(e[4]) for e in run.events if e[1] == "tx" and e[3] == f"inv{i}"]
        wire = [(w[2:] if o["port"] == 502 else w).hex() for w in wire]
        out["objects"].append({"requests": wire, "results": results[i], "bad": [b[1] for b in sim.bad]})
    out["changed"] = changed
    out["kept"] = len(kept)
    out["eco_kept"] = sum(1 for k in kept if len(k[3]) > 2 and k[3][2] is not None)
    return out


# ---- check side -----------------------------------------------------------------------------------------------------
def calls_for(tpl, rnd):
    fam = tpl[:2]
    pool = [["read_runtime_data"]]
    if fam == "ET":
        pool += [["read_setting", "eco_mode_1"], ["read_setting", "eco_mode_1"], ["read_setting", "grid_export_limit"],
                 ["write_setting", "grid_export_limit", rnd.randrange(0, 10000)], ["write_setting", "eco_mode_2_switch", rnd.choice((0, -1))],
                 ["set_operation_mode", {"mode": "ECO_CHARGE"}, rnd.randrange(1, 101), rnd.randrange(0, 101)],
                 ["set_operation_mode", {"mode": "ECO_CHARGE"}, rnd.randrange(1, 101), rnd.randrange(0, 101)],
                 ["set_operation_mode", {"mode": "ECO_DISCHARGE"}, rnd.randrange(1, 101)], ["set_operation_mode", {"mode": "GENERAL"}],
                 ["get_operation_mode"], ["read_setting", "eco_mode_2"], ["get_ongrid_battery_dod"], ["read_setting", "time"]]
        if tpl != "ETv1":
            pool += [["read_setting", "peak_shaving_mode"],
                     ["write_setting", "eco_mode_1", {"hex": (bytes([rnd.randrange(24), rnd.randrange(60), rnd.randrange(24), rnd.randrange(60), 0xFF, 0x7F]) +
                                                           rnd.randrange(-100, 101).to_bytes(2, "big", signed=True) + b"\x00\x50\x00\x00").hex()}]]
        if rnd.random() < 0.1:
            pool += [["read_settings_data"]]
    elif fam == "DT":
        pool += [["read_setting", "grid_export_limit"], ["write_setting", "grid_export_limit", rnd.randrange(0, 100)], ["read_setting", "time"],
                 ["get_grid_export_limit"], ["read_sensor", "vpv1"]]
    else:
        pool += [["read_setting", "eco_mode_1"], ["read_setting", "eco_mode_1"], ["read_setting", "eco_mode_3"],
                 ["set_operation_mode", {"mode": "ECO_CHARGE"}, rnd.randrange(1, 101), rnd.randrange(0, 101)],
                 ["set_operation_mode", {"mode": "ECO_DISCHARGE"}, rnd.randrange(1, 101)], ["write_setting", "eco_mode_2_switch", rnd.choice((0, -1))],
                 ["get_operation_mode"], ["read_settings_data"], ["get_grid_export_limit"], ["set_grid_export_limit", rnd.randrange(0, 10000)],
                 ["read_setting", rnd.choice(("capacity", "charge_i", "discharge_v", "charge_v", "work_mode", "grid_export_limit"))]]
    return [rnd.choice(pool) for _ in range(rnd.randrange(1, 5))]


def run_transcripts(specs, workdir):
    """Run each transcript spec in its own interpreter (a few at a time)."""
    vcheck = os.path.join(env.VERIF, "vcheck")
    outs = [None] * len(specs)
    procs = []
    cenv = dict(os.environ, PYTHONHASHSEED="0")
    for i, sp in enumerate(specs):
        sf, of = os.path.join(workdir, f"t{i}.json"), os.path.join(workdir, f"t{i}.out.json")
        json.dump(sp, open(sf, "w"))
        procs.append((i, subprocess.Popen([sys.executable, vcheck, "worker", "C20", sf, of], env=cenv,
                                          stdout=subprocess.DEVNULL, stderr=subprocess.PIPE), of))
        if len(procs) >= 2:
            j, p, f = procs.pop(0)
            err = p.communicate(timeout=300)[1]
            outs[j] = json.load(open(f)) if p.returncode == 0 and os.path.exists(f) else {"crash": (err or b"").decode()[-400:]}
    for j, p, f in procs:
        err = p.communicate(timeout=300)[1]
        outs[j] = json.load(open(f)) if p.returncode == 0 and os.path.exists(f) else {"crash": (err or b"").decode()[-400:]}
    return outs


def scenario_check(sc, part, workdir):
    rnd = random.Random(sc["seed"])
    objs = sc["objects"]
    na, nb = len(objs[0]["calls"]), len(objs[1]["calls"])
    solo = [{"objects": objs, "active": [0], "schedule": [0] * na}, {"objects": objs, "active": [1], "schedule": [1] * nb}]
    merges = [[0] * na + [1] * nb, [1] * nb + [0] * na]
    alt = []
    ia = ib = 0
    while ia < na or ib < nb:
        if ia < na:
            alt.append(0)
            ia += 1
        if ib < nb:
            alt.append(1)
            ib += 1
    merges.append(alt)
    for _ in range(sc["n_random_merges"]):
        m = [0] * na + [1] * nb
        rnd.shuffle(m)
        merges.append(m)
    inter = [{"objects": objs, "active": [0, 1], "schedule": m} for m in merges]
    for k in range(sc["n_concurrent"]):
        offs = [rnd.choice((0.0, 0.05, 0.25)), rnd.choice((0.0, 0.05, 0.15, 0.35))]
        if sc.get("lossy"):             # (timeout 1 s: the other object's retransmissions fall between this object's)
            offs = [[0.0, 0.5], [0.0, 0.25], [0.5, 0.0], [0.0, 0.0]][k % 4]
        if sc.get("fragmented"):        # (latency 0.1, pieces 0.04 apart: the other object's request falls between the two pieces)
            offs = [[0.0, 0.12], [0.12, 0.0], [0.0, 0.26]][k % 3]
            part.count("concurrent_with_fragmented_answers")
        inter.append({"objects": objs, "active": [0, 1], "schedule": "concurrent", "latency": 0.1, "offsets": offs})
    outs = run_transcripts(solo + inter, workdir)
    part.count("transcripts", len(outs))
    pair = f"{objs[0]['template']}+{objs[1]['template']}"
    case = {"scenario": sc}
    for o in outs:
        if "crash" in o or o.get("stop") or o.get("error"):
            part.violate("C20/transcript-failed", f"{pair}: {o.get('crash') or o.get('stop') or o.get('error')}", case)
            return
    if sc.get("long_history"):
        part.count("long_history_pairs")
    if sc.get("lossy"):
        part.count("retransmitting_pairs")
    if sc.get("capabilities"):
        part.count("same_model_different_capabilities_pairs")
    if sc.get("settings_refused"):
        part.count("pairs_with_settings_one_unit_refuses")
    if sc.get("changing"):
        part.count("values_kept_while_registers_change")
    if sc.get("unreachable"):
        part.count("pairs_with_an_unreachable_inverter")
    if sc.get("same_host"):
        part.count("same_host_pairs")
    if sc.get("drifting"):
        part.count("drifting_measurements_pairs")
    if objs[0]["template"][:2] != objs[1]["template"][:2]:
        part.count("cross_family_pairs")
    if objs[0]["template"] == objs[1]["template"]:
        part.count("same_template_pairs")
    base = [outs[0]["objects"][0], outs[1]["objects"][1]]
    for ti, o in enumerate(outs):
        part.count("snapshots_checked", o["kept"])
        part.count("eco_values_snapshotted", o["eco_kept"])
        for ch in o["changed"]:
            part.violate("C20/returned-value-mutated",
                         f"{pair}: value returned by call #{ch['call']} on object {ch['object']} ({objs[ch['object']]['calls'][ch['call']][:2]}) "
                         f"changed from {ch['at_return'][1]!r} to {ch['at_end'][1]!r} after later calls", dict(case, transcript=ti))
        for ob in o["objects"]:
            if ob["bad"]:
                part.violate("C20/undecodable-request", f"{pair}: {ob['bad'][0]}", dict(case, transcript=ti))
    for ti, o in enumerate(outs[2:]):
        sched = inter[ti]["schedule"]
        part.count("interleavings_compared")
        if sched == "concurrent":
            part.count("concurrent_interleavings")
        for i in (0, 1):
            part.count("requests_compared", len(base[i]["requests"]))
            got = o["objects"][i]
            if got["requests"] != base[i]["requests"]:
                d = next((k for k, (x, y) in enumerate(zip(got["requests"], base[i]["requests"])) if x != y),
                         min(len(got["requests"]), len(base[i]["requests"])))
                gx = got["requests"][d] if d < len(got["requests"]) else "<none>"
                bx = base[i]["requests"][d] if d < len(base[i]["requests"]) else "<none>"
                part.violate("C20/cross-object-interference/requests",
                             f"{pair}: object {i} ({objs[i]['template']}, calls {[c[0] for c in objs[i]['calls']]}) transmits {gx} as request #{d} when "
                             f"interleaved ({sched if sched == 'concurrent' else ''.join('AB'[x] for x in sched)}) with the other object, but {bx} when run alone",
                             dict(case, transcript=ti + 2))
            elif got["results"] != base[i]["results"]:
                d = next((k for k, (x, y) in enumerate(zip(got["results"], base[i]["results"])) if x != y), 0)
                part.violate("C20/cross-object-interference/results",
                             f"{pair}: object {i} call #{d} {objs[i]['calls'][d][:2]} returns {str(got['results'][d])[:100]} when interleaved but "
                             f"{str(base[i]['results'][d])[:100]} when run alone", dict(case, transcript=ti + 2))
    part.evaluations += 1
    part.see(f"{pair}|{[c[0] for c in objs[0]['calls']]}|{[c[0] for c in objs[1]['calls']]}")
    if part.evaluations % 9 == 1:
        part.sample({"pair": pair, "calls_A": objs[0]["calls"], "calls_B": objs[1]["calls"], "transcripts": len(outs),
                     "requests_A_solo": len(base[0]["requests"]), "requests_B_solo": len(base[1]["requests"]),
                     "interleavings": [s["schedule"] if s["schedule"] == "concurrent" else "".join("AB"[x] for x in s["schedule"]) for s in inter]})


def make_scenario(rnd, a, b, seed, tier):
    pa = rnd.choice((8899, 502)) if not a.startswith("ES") else 8899
    pb = rnd.choice((8899, 502)) if not b.startswith("ES") else 8899
    return {"seed": seed, "n_random_merges": 1 if tier == "quick" else 3, "n_concurrent": 1 if tier == "quick" else 2,
            "objects": [{"template": a, "port": pa, "seed": seed + ":A", "calls": calls_for(a, rnd), "comm": rnd.choice((0, 0, 0x11))},
                        {"template": b, "port": pb, "seed": seed + ":B", "calls": calls_for(b, rnd), "comm": rnd.choice((0, 0, 0x25))}]}


def directed_scenarios(seed):
    """The interference patterns the property text names explicitly."""
    out = []
    ec = ["set_operation_mode", {"mode": "ECO_CHARGE"}, 40, 80]
    rr = [["read_runtime_data"]]
    for a, b, ca, cb in (("DTc", "ET205", 0, 0), ("ETc", "DT", 0, 0), ("ETc", "ET205", 0, 0), ("DTc", "DT", 0, 0), ("DT", "DTu", 0, 0), ("DTu", "DT", 0, 0), ("ET205", "ETf", 0, 0), ("ETf", "ET205", 0, 0), ("ET205", "ET205", 0x11, 0),
                         ("ET205", "DT", 0x7F, 0), ("DT", "DT", 0, 0x25), ("ESv1", "ESv1", 0, 0x33)):
        for calls_a, calls_b in ((rr, rr), (rr + [["read_setting", "grid_export_limit"]], rr)):
            out.append({"seed": f"{seed}:dirR:{a}:{b}:{len(out)}", "n_random_merges": 0, "n_concurrent": 1,
                        "objects": [{"template": a, "port": 8899, "seed": f"{seed}:rA{len(out)}", "calls": calls_a, "comm": ca},
                                    {"template": b, "port": 8899, "seed": f"{seed}:rB{len(out)}", "calls": calls_b, "comm": cb}]})
    # both objects write (or one reads, the other writes) the SAME value to the same-named setting of their own inverter
    for a, b in (("DT", "DT"), ("DT", "DTu"), ("ET205", "ET205"), ("ET205", "ET745"), ("ESv1", "ESv1"), ("ESv2", "ESv2"), ("DT", "ET205")):
        for ca, cb in (([["write_setting", "grid_export_limit", 37]], [["write_setting", "grid_export_limit", 37], ["read_setting", "grid_export_limit"]]),
                       ([["read_setting", "grid_export_limit"]], [["write_setting", "grid_export_limit", 55], ["write_setting", "grid_export_limit", 55]]),
                       ([["set_grid_export_limit", 41]], [["set_grid_export_limit", 41], ["get_grid_export_limit"]])):
            if a.startswith("ES") and ca[0][0] != "set_grid_export_limit":
                continue
            out.append({"seed": f"{seed}:same:{a}:{b}:{len(out)}", "n_random_merges": 0, "n_concurrent": 1,
                        "objects": [{"template": a, "port": 8899, "seed": f"{seed}:sA{len(out)}", "calls": ca},
                                    {"template": b, "port": 8899, "seed": f"{seed}:sB{len(out)}", "calls": cb}]})
    # settings that live in a block the family reads as a whole (ES settings block, ET / DT single registers): read one after the other on two
    # objects in quick succession - each object reports what ITS inverter holds
    es_block = [["read_setting", x] for x in ("capacity", "charge_i", "discharge_v", "work_mode", "capacity")]
    for a, b in (("ESv1", "ESv1"), ("ESv2", "ESv1"), ("ESe", "ESs")):
        out.append({"seed": f"{seed}:blk:{a}:{b}:{len(out)}", "n_random_merges": 2, "n_concurrent": 1,
                    "objects": [{"template": a, "port": 8899, "seed": f"{seed}:kA{len(out)}", "calls": es_block},
                                {"template": b, "port": 8899, "seed": f"{seed}:kB{len(out)}", "calls": es_block[1:]}]})
    for a, b in (("ET745", "ET205u"), ("ESv2", "ET205u"), ("ET205u", "ET745"), ("ET745", "ET205g"), ("ET745", "ET205"), ("ET205", "ET745"), ("ESv2", "ESv2g"), ("ET745", "ETv1"), ("ESv2", "ET205g"),
                 ("ET205g", "ET745"), ("ESv1", "ESv1"), ("ET205", "ET205")):
        for ca in ([ec], [["read_setting", "eco_mode_1"]], [["read_setting", "eco_mode_1"], ec]):
            for cb in ([ec], [["read_setting", "eco_mode_1"], ["read_setting", "eco_mode_2"]], [["set_operation_mode", {"mode": "ECO_DISCHARGE"}, 30]]):
                out.append({"seed": f"{seed}:dir:{a}:{b}:{len(out)}", "n_random_merges": 0, "n_concurrent": 1,
                            "objects": [{"template": a, "port": 8899, "seed": f"{seed}:dA{len(out)}", "calls": ca},
                                        {"template": b, "port": 8899, "seed": f"{seed}:dB{len(out)}", "calls": cb}]})
    return out


def capability_scenarios(seed):
    """two inverters that report the same model name but differ in what they offer (no smart meter / optional blocks refused by the firmware):
    what one object learns about ITS inverter must not change what the other object polls"""
    out = []
    rr = [["read_runtime_data"], ["read_runtime_data"], ["read_runtime_data"]]
    es_calls = [["set_operation_mode", {"mode": "GENERAL"}], ["read_settings_data"], ["set_operation_mode", {"mode": "BACKUP"}], ["read_runtime_data"]]
    for a, b in (("ESe", "ESs"), ("ESs", "ESe")):
        out.append({"seed": f"{seed}:cap:{a}:{b}", "n_random_merges": 2, "n_concurrent": 1, "capabilities": True,
                    "objects": [{"template": a, "port": 8899, "seed": f"{seed}:cA{len(out)}", "calls": es_calls},
                                {"template": b, "port": 8899, "seed": f"{seed}:cB{len(out)}", "calls": es_calls}]})
    # ... over many polls (anything that counts polls, or retries something every n-th poll, must count per object)
    for a, b, na, nb in (("DTn", "DT", 24, 11), ("DTn", "DTn", 23, 9), ("ETr", "ET205", 22, 7), ("ETr", "ETr", 21, 13)):
        out.append({"seed": f"{seed}:capmany:{a}:{b}", "n_random_merges": 2, "n_concurrent": 0, "capabilities": True,
                    "objects": [{"template": a, "port": 8899, "seed": f"{seed}:mA{len(out)}", "calls": [["read_runtime_data"]] * na},
                                {"template": b, "port": 8899, "seed": f"{seed}:mB{len(out)}", "calls": [["read_runtime_data"]] * nb}]})
    # ... and settings one unit refuses while the other serves them (each object learns about ITS inverter only)
    dt_set = [["read_setting", x] for x in ("shadow_scan_pv1", "grid_export_hw", "shadow_scan_pv2", "shadow_scan_pv1_time", "grid_export_limit", "shadow_scan_pv1")] + [["read_settings_data"]]
    et_set = [["read_setting", x] for x in ("battery_discharge_depth", "grid_export_limit", "work_mode", "grid_export", "battery_discharge_depth")] + [["get_ongrid_battery_dod"], ["get_operation_mode"]]
    for a, b in (("DTs", "DT"), ("DT", "DTs"), ("DTs", "DTs"), ("ETs", "ET205"), ("ET205", "ETs"), ("ETs", "ET745")):
        cs = dt_set if a.startswith("DT") else et_set
        out.append({"seed": f"{seed}:capset:{a}:{b}", "n_random_merges": 2, "n_concurrent": 1, "capabilities": True, "settings_refused": True,
                    "objects": [{"template": a, "port": 8899 if len(out) % 2 else 502, "seed": f"{seed}:sA{len(out)}", "calls": cs},
                                {"template": b, "port": 8899, "seed": f"{seed}:sB{len(out)}", "calls": cs}]})
    for a, b in (("DTn", "DT"), ("DT", "DTn"), ("DTn", "DTn"), ("ETr", "ET205"), ("ET205", "ETr"), ("ETr", "ET745"), ("ETr", "ETr")):
        out.append({"seed": f"{seed}:cap:{a}:{b}", "n_random_merges": 2, "n_concurrent": 1, "capabilities": True,
                    "objects": [{"template": a, "port": 8899, "seed": f"{seed}:cA{len(out)}", "calls": rr},
                                {"template": b, "port": 8899 if len(out) % 2 else 502, "seed": f"{seed}:cB{len(out)}", "calls": rr}]})
    return out


def changing_content_scenarios(seed):
    """one object reads the same schedule group again and again while the inverter's registers change between the reads - valid content, then
    content that cannot be decoded, then other valid content: every value handed out keeps what it held when it was returned"""
    out = []
    v1 = "0100020aff7fffd8005a0000"        # 1:00-2:10 on, every day, -40 %, SoC 90
    bad = "0100020aff7fffd800c80000"       # SoC 200 %: undecodable
    bad2 = "1900020aff7fffd8005a0000"      # start hour 25: undecodable
    v2 = "051e062dff150019003200ff"[:24]   # 5:30-6:45 on, Mon/Wed/Fri, 25 %, SoC 50
    for a, b in (("ET205", "ET205"), ("ET745", "ET205"), ("ESv2", "ET205"), ("ET205", "ESv2")):
        for grp, base in (("eco_mode_1", 47547), ("eco_mode_3", 47559)):
            for seq in ((v1, bad, v2), (v1, bad2, v2), (v1, v2, bad, v1), (v2, bad, bad2, v1)):
                ca = []
                for content in seq:
                    ca += [["__setregs__", base, content], ["read_setting", grp]]
                ca += [["read_settings_data"]] if a.startswith("ET") and len(out) % 2 else []
                out.append({"seed": f"{seed}:chg:{a}:{b}:{len(out)}", "n_random_merges": 1, "n_concurrent": 0, "changing": True,
                            "objects": [{"template": a, "port": 8899, "seed": f"{seed}:gA{len(out)}", "calls": ca},
                                        {"template": b, "port": 8899, "seed": f"{seed}:gB{len(out)}", "calls": [["read_setting", "eco_mode_1"], ["read_runtime_data"]]}]})
    return out


def fragment_scenarios(seed):
    """both inverters answer every request in two pieces (header first, the rest 0.04 s later) while the two objects' calls overlap:
    the reassembly state of one object must not be disturbed by the other object's traffic"""
    out = []
    rr = [["read_runtime_data"]]
    for a, b in (("ESv1", "ESv1"), ("ESv2", "ESv1"), ("ET205", "ET205"), ("DT", "DT"), ("ESv1", "ET205"), ("ET205", "DT")):
        for calls_a, calls_b in ((rr, rr), (rr + [["read_settings_data"]], [["read_settings_data"]] + rr)):
            out.append({"seed": f"{seed}:frag:{a}:{b}:{len(out)}", "n_random_merges": 0, "n_concurrent": 3, "fragmented": True,
                        "objects": [{"template": a, "port": 8899, "seed": f"{seed}:fA{len(out)}", "calls": calls_a, "frag": [9, 0.04]},
                                    {"template": b, "port": 8899, "seed": f"{seed}:fB{len(out)}", "calls": calls_b, "frag": [9, 0.04]}]})
    return out


def same_host_scenarios(seed):
    """two inverters behind ONE host name on different UDP ports (port-forwarding gateway, simulators on localhost)"""
    out = []
    rr = [["read_runtime_data"], ["read_setting", "grid_export_limit"]]
    wr = [["write_setting", "grid_export_limit", 44], ["read_setting", "grid_export_limit"]]
    for a, b in (("DT", "DT"), ("ET205", "ET205"), ("ET205", "DT"), ("ESv1", "ESv1")):
        for ca, cb in ((rr, rr), (rr, wr)):
            if a.startswith("ES"):
                ca, cb = [["read_runtime_data"]], [["read_runtime_data"], ["get_grid_export_limit"]]
            out.append({"seed": f"{seed}:host:{a}:{b}:{len(out)}", "n_random_merges": 1, "n_concurrent": 1, "same_host": True,
                        "objects": [{"template": a, "host": "gw0", "port": 8899, "seed": f"{seed}:gA{len(out)}", "calls": ca},
                                    {"template": b, "host": "gw0", "port": 8898, "seed": f"{seed}:gB{len(out)}", "calls": cb}]})
    return out


def drift_scenarios(seed):
    """the inverters' measurements move on between polls: a result handed out by an earlier poll keeps the values it had"""
    out = []
    rr = [["read_runtime_data"], ["read_runtime_data"], ["read_sensor", "vpv1"], ["read_runtime_data"]]
    for a, b in (("ESv1", "ESv2"), ("ET205", "DT"), ("DT", "ESv1"), ("ET205", "ET745")):
        out.append({"seed": f"{seed}:drift:{a}:{b}", "n_random_merges": 1, "n_concurrent": 0, "drifting": True,
                    "objects": [{"template": a, "port": 8899, "seed": f"{seed}:dfA{len(out)}", "calls": rr, "drift": True},
                                {"template": b, "port": 8899, "seed": f"{seed}:dfB{len(out)}", "calls": rr[:2], "drift": True}]})
    # an idle inverter (running data and clock unchanged from poll to poll) whose smart-meter readings keep moving
    for a, b in (("DT", "DT"), ("DT", "ET205"), ("ET205", "DT"), ("ET205", "ET205")):
        out.append({"seed": f"{seed}:mdrift:{a}:{b}", "n_random_merges": 1, "n_concurrent": 0, "drifting": True,
                    "objects": [{"template": a, "port": 8899, "seed": f"{seed}:dmA{len(out)}", "calls": rr, "drift": "meter"},
                                {"template": b, "port": 8899 if len(out) % 2 else 502, "seed": f"{seed}:dmB{len(out)}", "calls": rr[:3], "drift": "meter"}]})
    return out


def lossy_scenarios(seed):
    """retransmissions under way on both objects at the same time: inverter A stops answering after its identification, inverter B loses the
    first two transmissions of every request; both objects have a retry budget of 2 and their calls overlap in time.  Each object must
    transmit exactly what it transmits alone (same number of retransmissions) and report the same outcome."""
    out = []
    for a, b in (("ESv1", "ESv1"), ("ESv2", "ESv1"), ("ET205", "ET205"), ("DT", "DT"), ("ET205", "DT"), ("ESv1", "ET205"), ("DT", "ESv2")):
        for ca, cb in (([["read_runtime_data"], ["read_runtime_data"]], [["read_runtime_data"], ["read_runtime_data"]]),
                       ([["read_runtime_data"]], [["read_settings_data"], ["read_runtime_data"]])):
            out.append({"seed": f"{seed}:lossy:{a}:{b}:{len(out)}", "n_random_merges": 1, "n_concurrent": 4, "lossy": True,
                        "objects": [{"template": a, "port": 8899, "seed": f"{seed}:lA{len(out)}", "calls": ca, "silent": True, "retries": 2},
                                    {"template": b, "port": 8899, "seed": f"{seed}:lB{len(out)}", "calls": cb, "lossy": 2, "retries": 2}]})
    return out


def unreachable_scenarios(seed):
    """the socket towards inverter A cannot be opened (no route) for A's next k calls, each of which fails at once; object B, whose inverter
    is fine, makes its calls in between and afterwards: B transmits and returns exactly what it does alone - whatever A's failures leave
    behind (a counted resource, a shared flag) must not reach B"""
    out = []
    rr = [["read_runtime_data"]]
    for a, b in (("ET205", "ET205"), ("DT", "ET205"), ("ESv1", "ESv1"), ("ET205", "DT"), ("DT", "DT")):
        for k in (5, 9):
            out.append({"seed": f"{seed}:unreach:{a}:{b}:{k}", "n_random_merges": 1, "n_concurrent": 1, "unreachable": True,
                        "objects": [{"template": a, "port": 8899, "seed": f"{seed}:uA{len(out)}", "calls": rr * k, "endpoint_fail": k},
                                    {"template": b, "port": 8899, "seed": f"{seed}:uB{len(out)}", "calls": rr * 2 + [["read_setting", "grid_export_limit"]] if not b.startswith("ES") else rr * 3}]})
    # both inverters stop answering: each object's failures (and the streak they report) are its own
    for a, b in (("ET205", "ET205"), ("DT", "ET205"), ("ESv1", "DT"), ("ESv1", "ESv1")):
        ca = [["read_runtime_data"], ["read_runtime_data"], ["read_runtime_data"]]
        out.append({"seed": f"{seed}:bothsilent:{a}:{b}", "n_random_merges": 3, "n_concurrent": 1, "lossy": True,
                    "objects": [{"template": a, "port": 8899, "seed": f"{seed}:sA{len(out)}", "calls": ca, "silent": True, "retries": 0},
                                {"template": b, "port": 8899, "seed": f"{seed}:sB{len(out)}", "calls": ca[:2], "silent": True, "retries": 1}]})
    return out


def long_history_scenarios(seed):
    """object A has a long Modbus/TCP history behind it (tens of thousands of requests) when object B makes its few calls"""
    out = []
    rr = [["read_runtime_data"], ["read_setting", "grid_export_limit"]]
    for a, b, pre in (("ET205", "ET205", 65527), ("ET205", "ET205", 65530), ("DT", "ET205", 65526), ("ET205", "DT", 131060), ("DT", "DT", 65531),
                      # (... and when its transaction ids reach byte patterns that mean something in the OTHER framings: 0xAA55 = the AA55 header)
                      ("ET205", "ET205", 0xAA55 - 6), ("DT", "ET205", 0xAA55 - 3), ("ET205", "DT", 0xAA55 - 9), ("DT", "DT", 0xAA55 - 2)):
        out.append({"seed": f"{seed}:hist:{a}:{b}", "n_random_merges": 0, "n_concurrent": 1, "long_history": True,
                    "objects": [{"template": a, "port": 502, "seed": f"{seed}:hA{len(out)}", "calls": [["read_runtime_data"]], "pre_tx": pre},
                                {"template": b, "port": 502, "seed": f"{seed}:hB{len(out)}", "calls": rr}]})
    return out


def plan(tier, seed):
    n = 16
    return [{"shard": i, "shards": n, "tier": tier, "seed": seed} for i in range(n)]


def run_shard(spec):
    part = Part()
    tier = spec["tier"]
    rnd = random.Random(f"{spec['seed']}:C20")
    scs = directed_scenarios(spec["seed"]) + fragment_scenarios(spec["seed"]) + long_history_scenarios(spec["seed"]) + same_host_scenarios(spec["seed"]) + drift_scenarios(spec["seed"]) + lossy_scenarios(spec["seed"]) + capability_scenarios(spec["seed"]) + changing_content_scenarios(spec["seed"]) + unreachable_scenarios(spec["seed"])
    pairs = list(itertools.product(TEMPLATES, repeat=2))
    reps = 1 if tier == "quick" else 12
    for r in range(reps):
        for a, b in pairs:
            scs.append(make_scenario(rnd, a, b, f"{spec['seed']}:C20:{r}:{a}:{b}", tier))
    workdir = tempfile.mkdtemp(prefix="c20-", dir=env.WORK)
    try:
        for i, sc in enumerate(scs):
            if i % spec["shards"] != spec["shard"]:
                continue
            scenario_check(sc, part, workdir)
    finally:
        import shutil
        shutil.rmtree(workdir, ignore_errors=True)
    return part


def replay(case):
    part = Part()
    os.makedirs(env.WORK, exist_ok=True)
    workdir = tempfile.mkdtemp(prefix="c20-", dir=env.WORK)
    scenario_check(case["scenario"], part, workdir)
    return [{"key": v["key"], "msg": v["msg"]} for v in part.violations]
