"""C02  Every conforming response frame is accepted (exploration, reference encoder + end-to-end)."""
from __future__ import annotations

import random

from .. import contracts, engine, env
from .. import refcodec as rc
from ..peers import ScriptedPeer
from ..runner import Part
from .c01 import make_command, payload_bytes, verdict

PROPERTY = "C02"
LEVEL = "exploration"
RULE = ("for every read count 1..125 x payload classes {00, FF, FF/FE, 7F/80, random} x comm addresses x (RTU) trailing bytes "
        "incl. a duplicated frame; write / write-multi echoes over the signed 16-bit value range and payload sizes; AA55 "
        "read/settings/runtime/device-info answers of payload length 0..255 x payload classes: the frame built by the "
        "independent reference encoder must make the real validator return True; an end-to-end part serves such frames "
        "through the real protocol objects and demands success with one transmission and exactly the served payload; two "
        "Modbus/TCP inverter objects with overlapping requests must each accept the answer carrying their own transaction id; sequences on one "
        "object: concurrent reads of different lengths, a request after a lone fragment, consecutive requests answered 0..0.9 T after their "
        "transmission with byte-identical answers; "
        "distinct = distinct (framing, kind, count or length, payload class, trailing class) tuples")
ASSUMPTIONS = [
    "a conforming frame is what the reference encoder in refcodec builds from the Modbus specification / the AA55 "
    "framing described in the property",
    "with trailing bytes after an RTU frame the served payload must be the prefix of response_data() (the library's "
    "trim keeps the trailing bytes; sensors address the payload by offset)",
]
MUST = ["polls_with_arbitrary_block_contents", "device_info_arbitrary_bytes", "aa55_header_addresses", "typed_setting_write_echoes", "single_value_entry_points", "aa55_read_length_independent_of_count", "aa55_sum_ge_8000", "aa55_sum_ge_10000", "rtu_trailing", "end_to_end_success", "negative_write_echo", "overlapping_tcp_inverters", "same_object_sequences", "consecutive_slow_or_identical_answers", "requests_from_a_new_event_loop", "write_ack_payload_checked", "answer_from_another_comm_address",
        "accepted_rtu", "accepted_tcp", "accepted_aa55"]
EXHAUSTIVE = {"quick": False, "thorough": False}
CLASSES = ["random", "ff", "00", "7f80", "fe", "aa55"]


def check_one(g, part, d, frame, cls, trailing="none"):
    cmd = make_command(g, d)
    v = verdict(g, cmd, frame)
    part.evaluations += 1
    f = d["framing"]
    n = d.get("count", d.get("plen", 0))
    part.see(f"{f}|{d['kind']}|{n}|{cls}|{trailing}")
    if v != "true":
        part.violate(f"C02/{f}/conforming-frame-refused",
                     f"{f} {d['kind']} answer (payload class {cls}, trailing {trailing}, {len(frame)} bytes) -> {v}: {frame.hex()[:90]}",
                     {"cmd": {k: (x.hex() if isinstance(x, bytes) else x) for k, x in d.items()}, "frame": frame.hex()})
    else:
        part.count("accepted_" + f)
    if f == "aa55":
        sm = sum(frame[:-2])
        if sm >= 0x8000:
            part.count("aa55_sum_ge_8000")
        if sm >= 0x10000:
            part.count("aa55_sum_ge_10000")
    if part.evaluations % 9973 == 5:
        part.sample({"command": {k: (x.hex() if isinstance(x, bytes) else x) for k, x in d.items()},
                     "payload_class": cls, "trailing": trailing, "frame": frame.hex()[:100], "verdict": v})


def pick_txid(rnd):
    """any transaction id 1..65535 is conforming - among them the ones whose bytes mean something in the other framings (0xAA55 = AA55 header,
    0xF703 / 0x7F03 = unit + function code of an RTU frame) and the ends of the range"""
    if rnd.random() < 0.3:
        return rnd.choice((0xAA55, 0x55AA, 0xF703, 0x7F03, 0xF706, 0xF710, 1, 2, 0x00FF, 0x0100, 0x7FFF, 0x8000, 0xFFFE, 0xFFFF))
    return rnd.randrange(1, 65536)


def direct(spec, part):
    g = env.goodwe()
    rnd = random.Random(spec["seed"])
    comms = [0xF7, 0x7F, 0, 1, 255]
    for framing in ("rtu", "tcp"):
        for count in range(1, 126):
            if count % spec["stride"] != spec["phase"] % spec["stride"] and count not in (1, 125):
                continue
            for cls in CLASSES:
                comm = rnd.choice(comms + [rnd.randrange(256)])
                reg = rnd.choice((0, 0xFFFF, 35100, rnd.randrange(65536)))
                d = {"framing": framing, "kind": "read", "comm": comm, "reg": reg, "count": count}
                pl = payload_bytes(rnd, 2 * count, cls)
                if framing == "rtu":
                    base = rc.rtu_response(d, pl)
                    for tname, t in (("none", b""), ("zero", b"\x00"), ("ffff", b"\xff\xff"), ("dup", base),
                                     ("rand", bytes(rnd.randrange(256) for _ in range(rnd.randrange(1, 20))))):
                        check_one(g, part, d, base + t, cls, tname)
                        if t:
                            part.count("rtu_trailing")
                else:
                    check_one(g, part, d, rc.tcp_response(d, pl, txid=pick_txid(rnd)), cls)
                # the answering unit reports another address than the one the request was sent to (gateways, broadcast address)
                d_other = dict(d, comm=(comm + rnd.randrange(1, 255)) % 256)
                check_one(g, part, d, rc.rtu_response(d_other, pl) if framing == "rtu" else rc.tcp_response(d_other, pl, txid=7), cls, "othercomm")
                part.count("answer_from_another_comm_address")
        vals = [0, 1, -1, 32767, -32768, 255, -256, 0x7F, -0x80] + [rnd.randrange(-32768, 32768) for _ in range(spec["nvals"])]
        for v in vals:
            d = {"framing": framing, "kind": "write", "comm": rnd.choice(comms), "reg": rnd.randrange(65536), "value": v}
            fr = rc.rtu_response(d) if framing == "rtu" else rc.tcp_response(d, txid=pick_txid(rnd))
            check_one(g, part, d, fr, "echo")
            d_other = dict(d, comm=(d["comm"] + rnd.randrange(1, 255)) % 256)
            check_one(g, part, d, rc.rtu_response(d_other) if framing == "rtu" else rc.tcp_response(d_other, txid=7), "echo", "othercomm")
            if v < 0:
                part.count("negative_write_echo")
            if framing == "rtu":
                check_one(g, part, d, fr + b"\x00\x00", "echo", "zero")
        for nb in range(2, 248, 2):
            if (nb // 2) % spec["stride"] != spec["phase"] % spec["stride"] and nb not in (2, 246):
                continue
            d = {"framing": framing, "kind": "multi", "comm": 0xF7, "reg": rnd.randrange(65536),
                 "data": payload_bytes(rnd, nb), "count": nb // 2}
            fr = rc.rtu_response(d) if framing == "rtu" else rc.tcp_response(d, txid=pick_txid(rnd))
            check_one(g, part, d, fr, "echo")
            d_other = dict(d, comm=0x7F)
            check_one(g, part, d, rc.rtu_response(d_other) if framing == "rtu" else rc.tcp_response(d_other, txid=7), "echo", "othercomm")
    for cmdhex, rtype in (("010200", "0182"), ("010600", "0186"), ("010900", "0189")):
        for plen in range(0, 256):
            if plen % spec["stride"] != spec["phase"] % spec["stride"] and plen not in (0, 254, 255):
                continue
            for cls in CLASSES:
                d = {"framing": "aa55", "kind": "raw", "cmdhex": cmdhex, "rtype": rtype, "plen": plen}
                check_one(g, part, d, rc.aa55_response(rtype, payload_bytes(rnd, plen, cls)), cls)
    for count in range(1, 128):
        if count % spec["stride"] != spec["phase"] % spec["stride"] and count not in (1, 125, 127):
            continue
        for cls in CLASSES:
            d = {"framing": "aa55", "kind": "aa55read", "reg": rnd.randrange(65536), "count": count, "rtype": "019A"}
            check_one(g, part, d, rc.aa55_response("019A", payload_bytes(rnd, 2 * count, cls)), cls)
            # the AA55 register read does not tie the payload length to the requested count (an ES eco-mode group is read with
            # count 1 and answered with 8 bytes): every length byte 0..255 is a well-formed answer
            for plen in {0, 1, 2 * count - 1, 8, rnd.randrange(256), 255}:
                part.count("aa55_read_length_independent_of_count")
                check_one(g, part, dict(d, plen=plen), rc.aa55_response("019A", payload_bytes(rnd, plen, cls)), cls)
    for _ in range(20):
        d = {"framing": "aa55", "kind": "aa55write", "reg": rnd.randrange(65536), "value": rnd.randrange(65536), "rtype": "02B9"}
        check_one(g, part, d, rc.aa55_response("02B9", b"\x06"), "ack")
    # the two address bytes of the AA55 header (source / destination) are the inverter's to choose - like the Modbus comm address
    for addr in (b"\x7f\xc0", b"\xc0\x7f", b"\x7f\xab", b"\xb0\xc0", b"\x00\x00", b"\xff\xff", b"\xf7\xc0", bytes((rnd.randrange(256), rnd.randrange(256)))):
        for cmdhex, rtype in (("010200", "0182"), ("010600", "0186"), ("010900", "0189")):
            for plen in (0, 64, 142):
                d = {"framing": "aa55", "kind": "raw", "cmdhex": cmdhex, "rtype": rtype, "plen": plen}
                check_one(g, part, d, rc.aa55_response(rtype, payload_bytes(rnd, plen, "random"), addr), "random", "addr" + addr.hex())
                part.count("aa55_header_addresses")
        d = {"framing": "aa55", "kind": "aa55read", "reg": 1793, "count": 4, "rtype": "019A"}
        check_one(g, part, d, rc.aa55_response("019A", payload_bytes(rnd, 8, "random"), addr), "random", "addr" + addr.hex())


class ServePeer(ScriptedPeer):
    def __init__(self, sc):
        super().__init__(engine.HOST, sc["framing"], [], sc["T"], after="drop")
        self.frame = bytes.fromhex(sc["frame"])

    def on_request(self, s, kind, frame, n):
        self.loop.ev("peer", self.owner, n, "serve")
        fr = self.frame
        if self.framing == "tcp":
            fr = frame[0:2] + fr[2:]
        self.send(s, fr, 0, n)


def end_to_end(spec, part):
    rnd = random.Random(spec["seed"])
    for i in range(spec["n"]):
        framing = rnd.choice(("rtu", "tcp", "aa55"))
        cls = rnd.choice(CLASSES)
        trailing = b""
        public = None
        if framing == "aa55":
            plen = rnd.choice((0, 1, 64, 142, 200, 254, 255, rnd.randrange(256)))
            pl = payload_bytes(rnd, plen, cls)
            frame = rc.aa55_response("0186", pl)
            step = ["aa55", "010600", "0186"]
            want = pl
        else:
            kind = rnd.choice(("read", "read", "write", "multi"))
            d = {"framing": framing, "kind": kind, "comm": 0xF7, "reg": rnd.choice((rnd.randrange(65536), rnd.randrange(65536), rnd.randrange(0x300), 0, 0x0136))}
            if kind == "read":
                d["count"] = rnd.choice((1, 1, 2, 33, 125, rnd.randrange(1, 126)))
                pl = payload_bytes(rnd, 2 * d["count"], cls)
                step = ["read", d["reg"], d["count"]]
                want = pl
                if d["count"] == 1 and rnd.random() < 0.7:
                    # the same answer taken through the single-value entry points of the inverter classes (each family has its own copy)
                    fam_ = rnd.choice(("ET", "DT", "ES")) if framing == "rtu" else rnd.choice(("ET", "DT"))
                    d["comm"] = {"ET": 0xF7, "DT": 0x7F, "ES": 0xF7}[fam_]
                    step = ["api", rnd.choice(("read_setting", "read_sensor") if fam_ != "ES" else ("read_setting",)), f"modbus-{d['reg']}"]
                    if fam_ != "ES" and rnd.random() < 0.6:     # ... and named one-register items (they take the classes' own helper)
                        step = rnd.choice((["api", "read_sensor", "vpv1"], ["api", "read_sensor", "ipv1"], ["api", "read_setting", "grid_export_limit"] if fam_ == "ET"
                                           else ["api", "read_sensor", "vgrid1" if fam_ == "DT" else "vpv2"]))
                    want = None
                    public = fam_
            elif kind == "write":
                d["value"] = rnd.choice((-1, -32768, 32767, rnd.randrange(-32768, 32768)))
                pl = None
                step = ["write", d["reg"], d["value"]]
                want = None
            else:
                d["data"] = payload_bytes(rnd, 2 * rnd.randrange(1, 124))
                d["count"] = len(d["data"]) // 2
                pl = None
                step = ["multi", d["reg"], d["data"].hex()]
                want = None
            frame = rc.rtu_response(d, pl) if framing == "rtu" else rc.tcp_response(d, pl)
            if framing == "rtu" and rnd.random() < 0.4:
                trailing = rnd.choice((b"\x00", frame, b"\xff\xff\xff", b"\x00\x00", bytes(rnd.randrange(256) for _ in range(rnd.randrange(1, 8)))))
                frame += trailing
        sc = {"transport": "tcp" if framing == "tcp" else "udp", "framing": framing, "keep_alive": rnd.random() < 0.5,
              "T": 1, "R": 1, "frame": frame.hex(), "tasks": [{"start": 0.0, "steps": [step]}]}
        if public:
            sc["family"] = public
            part.count("single_value_entry_points")
        run = engine.run_scenario(sc, peer_factory=ServePeer, quiesce=False)
        part.evaluations += 1
        part.see(f"e2e|{framing}|{step[0]}|{cls}|{bool(trailing)}")
        rec = run.calls[0] if run.calls else None
        ntx = len([e for e in run.events if e[1] == "tx"])
        case = {"e2e": True, "scenario": sc}
        if not rec or rec["outcome"] != "ok" or ntx != 1:
            part.violate(f"C02/{framing}/conforming-answer-not-delivered",
                         f"{step[:2]} served {frame.hex()[:80]} (class {cls}): outcome {rec['outcome'] if rec else run.stop}, {ntx} transmissions", case)
            continue
        part.count("end_to_end_success")
        if want is None and framing != "aa55" and not public:
            # a write / write-multi acknowledgement echoes register and value (count): what is handed to the caller must still end
            # with that echo, whatever the register address is
            got = bytes.fromhex(rec["result"]["raw"])
            data_ = bytes.fromhex(rec["result"]["data"]) if "data" in rec["result"] else None
            echo = (frame[:-2] if framing == "rtu" else frame)[-2:]
            if data_ is not None:
                part.count("write_ack_payload_checked")
                if not data_.endswith(echo):
                    part.violate(f"C02/{framing}/payload-differs",
                                 f"{step[:2]}: the acknowledgement {frame.hex()} was accepted but response_data() = {data_.hex()!r} no longer carries the echoed "
                                 f"value/count {echo.hex()}", case)
        if want is not None:
            got = bytes.fromhex(rec["result"]["data"]) if "data" in rec["result"] else \
                bytes.fromhex(rec["result"]["raw"])[7:-2]
            ok = got == want if not trailing else got[:len(want)] == want
            if not ok:
                part.violate(f"C02/{framing}/payload-differs",
                             f"{step[:2]}: response_data() {got.hex()[:60]} != served payload {want.hex()[:60]}", case)


def overlap(spec, part):
    """Two Modbus/TCP inverter objects whose requests overlap in time: each conforming answer (echoing the transaction id of
    ITS request) must be accepted."""
    from .. import sims
    g = env.goodwe()
    rnd = random.Random(spec["seed"])
    import asyncio
    for i in range(spec["n"]):
        sa, sb = sims.ModbusSim("invA"), sims.ModbusSim("invB")
        sa.delay, sb.delay = rnd.choice((0.1, 0.3, 0.5)), rnd.choice((0.05, 0.2, 0.4))
        for a in range(100, 140):
            sa.regs[a], sb.regs[a] = rnd.randrange(65536), rnd.randrange(65536)
        out = {}

        async def flow(loop):
            A, B = g.ET("invA", 502, 0, 1, 0), g.ET("invB", 502, 0, 1, 0)
            ka = rnd.random() < 0.5
            A.set_keep_alive(ka)
            B.set_keep_alive(ka)

            async def seq(inv, name, off):
                await asyncio.sleep(off)
                res = []
                for k in range(3):
                    try:
                        r = await inv._read_from_socket(inv._read_command(100 + k, 4))
                        res.append(r.response_data().hex())
                    except Exception as e:      # noqa
                        res.append("EXC:" + type(e).__name__)
                out[name] = res
            await asyncio.gather(seq(A, "A", 0.0), seq(B, "B", rnd.choice((0.0, 0.02, 0.15))))

        run = engine.run_custom({("invA", 502): sa, ("invB", 502): sb}, flow)
        part.evaluations += 1
        part.count("overlapping_tcp_inverters")
        part.see(f"overlap|{sa.delay}|{sb.delay}")
        for name, sim in (("A", sa), ("B", sb)):
            want = [sim.get_bytes(100 + k, 4).hex() for k in range(3)]
            if run.stop or out.get(name) != want:
                part.violate("C02/tcp/conforming-answer-not-delivered",
                             f"two overlapping Modbus/TCP inverters: object {name} got {out.get(name)} instead of the served payloads "
                             f"({run.stop or ''})", {"overlap": True, "seed": spec["seed"], "i": i})


def same_object(spec, part):
    """(a) two tasks use ONE inverter object at the same time with reads of different lengths; (b) a request follows one whose first
    transmission left a lone fragment behind (kept-alive UDP socket): every conforming answer must be accepted at once."""
    rnd = random.Random(spec["seed"])
    for i in range(spec["n"]):
        framing = rnd.choice(("rtu", "tcp"))
        transport = "tcp" if framing == "tcp" else "udp"
        ka = rnd.random() < 0.6
        if i % 7 == 4:
            # the object is used again from a second event loop (asyncio.run() twice, as scripts do): conforming answers must be accepted there too
            cA = cB = rnd.choice((1, 2, 10))
            nseg = rnd.choice((2, 3))
            sc = {"transport": transport, "framing": framing, "keep_alive": ka, "T": 1, "R": 1,
                  "by_reg": {2000 + j: ["now"] for j in range(nseg)}, "after": "now",
                  "segments": [[{"start": 0.0, "steps": [["read", 2000 + j, cA]]}] for j in range(nseg)]}
            want_tx = {2000 + j: 1 for j in range(nseg)}
            label = f"{nseg} requests, each from a new event loop (keep_alive={ka})"
            part.count("requests_from_a_new_event_loop")
        elif i % 3 == 2:
            # consecutive requests on one object, each answered in time (0 .. 0.9 T after ITS transmission); the answers may be
            # byte-identical (same count, constant payload: an RTU answer does not name the register)
            n, cA, cB = rnd.choice((2, 3, 4, 5)), rnd.choice((1, 2, 4)), 0
            const = rnd.choice((None, 0x00, 0xFF, 0x5A))
            delays = [rnd.choice((0.0, 0.3, 0.6, 0.9)) for _ in range(n)]
            steps = []
            for j in range(n):
                steps.append(rnd.choice((["read", 2000 + j, cA], ["read", 2000 + j, cA], ["write", 2000 + j, 0 if const is not None else j])))
                if rnd.random() < 0.3:
                    steps.append(["sleep", rnd.choice((0.05, 0.4, 1.0))])
            sc = {"transport": transport, "framing": framing, "keep_alive": ka, "T": 1, "R": 1, "const_payload": const,
                  "by_reg": {2000 + j: [["delay", delays[j]]] for j in range(n)}, "after": "now",
                  "tasks": [{"start": 0.0, "steps": steps}]}
            want_tx = {2000 + j: 1 for j in range(n)}
            label = f"{n} consecutive requests answered {delays} after their transmission (constant payload {const})"
            part.count("consecutive_slow_or_identical_answers")
        elif i % 2 == 0:
            cA, cB = rnd.sample((1, 2, 5, 10, 40, 125), 2)
            sc = {"transport": transport, "framing": framing, "keep_alive": ka, "T": 1, "R": 1,
                  # (B queues behind A and is then answered up to 0.8 T after ITS transmission: still in time)
                  "by_reg": {2000: [["delay", rnd.choice((0.3, 0.6))]], 3000: [["delay", rnd.choice((0.0, 0.5, 0.8))]]}, "after": "now",
                  "tasks": [{"start": 0.0, "steps": [["read", 2000, cA]]}, {"start": rnd.choice((0.0, 0.1, 0.29)), "steps": [["read", 3000, cB]]}]}
            want_tx = {2000: 1, 3000: 1}
            label = f"two concurrent reads ({cA} and {cB} registers)"
        else:
            cA = rnd.choice((5, 10, 20, 60))
            cB = rnd.choice((1, 2, 3))
            hdr = 5 if framing == "rtu" else 9
            LA, LB = hdr + 2 + 2 * cA if framing == "rtu" else 9 + 2 * cA, (7 + 2 * cB if framing == "rtu" else 9 + 2 * cB)
            k = max(hdr, LA - LB)               # the fragment misses exactly as many bytes as request B's whole answer has
            sc = {"transport": transport, "framing": framing, "keep_alive": ka, "T": 1, "R": 1,
                  "by_reg": {2000: [["frag1", k], "now"], 3000: ["now"]}, "after": "now",
                  "tasks": [{"start": 0.0, "steps": [["read", 2000, cA], ["read", 3000, cB]]}]}
            want_tx = {2000: 2, 3000: 1}
            label = f"read of {cB} registers after a read whose first answer was a lone {k}-byte fragment"
        run = engine.run_scenario(sc, quiesce=False)
        part.evaluations += 1
        part.count("same_object_sequences")
        part.see(f"sameobj|{framing}|{ka}|{i % 3 == 2 or i % 2}|{cA}|{cB}|{sc.get('const_payload')}")
        parse = rc.parse_rtu_request if framing == "rtu" else rc.parse_tcp_request
        ntx = {}
        for e in run.events:
            if e[1] == "tx":
                r = parse(e[4])["reg"]
                ntx[r] = ntx.get(r, 0) + 1
        for rec in run.calls:
            if rec["step"][0] == "sleep":
                continue
            reg = rec["step"][1]
            if run.stop or rec["outcome"] != "ok" or ntx.get(reg) != want_tx[reg]:
                part.violate(f"C02/{framing}/conforming-answer-not-delivered",
                             f"{label}: request for register {reg} ended {rec['outcome']} after {ntx.get(reg)} transmissions "
                             f"(expected success after {want_tx[reg]}) {run.stop or ''}", {"sameobj": True, "seed": spec["seed"], "i": i})
                break


def plan(tier, seed):
    specs = []
    stride = 8 if tier == "quick" else 1
    shards = 8 if tier == "quick" else 16
    for i in range(shards):
        specs.append({"mode": "direct", "seed": f"{seed}:C02:{i}", "stride": stride, "phase": i,
                      "nvals": 200 if tier == "quick" else 8192})
    for i in range(4 if tier == "quick" else 32):
        specs.append({"mode": "e2e", "seed": f"{seed}:C02:E:{i}", "n": 600 if tier == "quick" else 10000})
    specs.append({"mode": "overlap", "seed": f"{seed}:C02:O", "n": 60 if tier == "quick" else 3000, "typed": True})
    for i in range(1 if tier == "quick" else 8):
        specs.append({"mode": "info", "seed": f"{seed}:C02:I{i or ''}", "n": 0, "n_info": 150 if tier == "quick" else 3000})
    for i in range(1 if tier == "quick" else 16):
        specs.append({"mode": "sameobj", "seed": f"{seed}:C02:S{i or ''}", "n": 300 if tier == "quick" else 3000})
    return specs


def typed_writes(part):
    """the echo a conforming inverter sends for a write made through the TYPED setting path (write_setting of a named setting, each family's
    own _write_setting) is accepted for every 16-bit pattern - top bit set included (export limit >= 32768 W, a switch byte of 0xFF)"""
    from .. import models
    g = env.goodwe()
    for fam, port, kw in (("ET", 8899, {}), ("ET", 502, {}), ("DT", 8899, {"tag": "DTU"}), ("DT", 502, {"tag": "DTU"}), ("ES", 8899, {"fw": b"2225F"})):
        sim = models.family_sim(fam, **kw)
        out = []

        async def flow(loop):
            inv = models.family_cls(g, fam)("inv0", port, 0, 1, 0)
            await inv.read_device_info()
            calls = [("grid_export_limit", v) for v in (0, 1, 32767, 32768, 40000, 65535)] if fam != "ES" else []
            if fam != "DT":
                calls += [("eco_mode_1_switch", -1), ("eco_mode_2_switch", 0), ("eco_mode_3_switch", -128), ("eco_mode_4_switch", 127)]
            for sid, v in calls:
                w0 = len(sim.writes)
                try:
                    await inv.write_setting(sid, v)
                    out.append((sid, v, "ok", len(sim.writes) - w0))
                except Exception as e:      # noqa
                    out.append((sid, v, f"{type(e).__name__}: {str(getattr(e, 'message', '') or e)[:60]}", len(sim.writes) - w0))
        run = engine.run_custom({("inv0", port): sim}, flow, vtime_cap=600, tx_cap=600)
        framing = "tcp" if port == 502 else "rtu"
        if run.stop or run.error is not None:
            part.violate(f"C02/{framing}/conforming-answer-not-delivered", f"{fam} port {port}: typed writes: {run.stop or repr(run.error)[:100]}", {"typed": True})
            continue
        for sid, v, how, nw in out:
            part.evaluations += 1
            if how != "ok" and nw >= 1:
                part.violate(f"C02/{framing}/conforming-answer-not-delivered",
                             f"{fam} port {port}: write_setting({sid!r}, {v}) reached the inverter, which applied it and echoed it, yet the call ended {how}", {"typed": True})
            elif how == "ok":
                part.count("typed_setting_write_echoes")
        part.see(f"typed|{fam}|{port}")


def device_info_payloads(spec, part):
    """the identification answer is a conforming frame whatever its bytes are (any serial / model / version bytes, control characters, 0xFF runs,
    byte pairs that are no valid UTF-16): read_device_info() of every family, over both Modbus framings and AA55, must take it - one transmission per
    request, no exception out of the call"""
    from .. import models
    g = env.goodwe()
    rnd = random.Random(spec["seed"] + ":info")
    for i in range(spec.get("n_info", 60)):
        fam = ("ET", "DT", "ES")[i % 3]
        port = 8899 if fam == "ES" or rnd.random() < 0.6 else 502
        sim = models.family_sim(fam)
        style = rnd.choice(("random", "random", "ff", "zero", "ctrl", "wide", "padded"))
        n = 66 if fam == "ET" else 80 if fam == "DT" else 64
        if fam == "ES" and rnd.random() < 0.3:
            n = rnd.choice((0, 1, 2, 3, 4, 5, 6, 15, 31, 47, 51, 63, 80, 255))      # AA55: the length byte says how long the identification payload is

        def content(k):
            if style == "random":
                return bytes(rnd.randrange(256) for _ in range(k))
            if style == "ff":
                return b"\xff" * k
            if style == "zero":
                return bytes(k)
            if style == "padded":   # short texts padded with blanks (version strings of 1..4 characters, blank fields)
                out_ = b""
                while len(out_) < k:
                    out_ += bytes(rnd.choice(b"0123456789ABEF") for _ in range(rnd.randrange(0, 5))) + b" " * rnd.randrange(1, 6)
                return out_[:k]
            if style == "ctrl":     # text with control characters sprinkled in
                return bytes(rnd.choice((rnd.randrange(32), rnd.randrange(48, 91), rnd.randrange(48, 91), 0x20, 0x7f)) for _ in range(k))
            # 'wide': 16-bit code units, some of them surrogate halves (D800..DFFF) in any order, some zero high bytes
            return b"".join(rnd.choice((bytes([0, rnd.randrange(32, 127)]), bytes([rnd.randrange(0xD8, 0xE0), rnd.randrange(256)]),
                                        bytes([rnd.randrange(256), 0]))) for _ in range(k // 2 + 1))[:k]
        blk = bytearray(content(n))
        if rnd.random() < 0.5:
            # ... or only one text field is unusual, the rest is what the simulated model sends
            base = bytearray(n)
            if fam == "ES":
                base[:] = sim.info[:n].ljust(n, b"\x00")
            else:
                first = 35000 if fam == "ET" else 30001
                for k in range(n // 2):
                    base[2 * k:2 * k + 2] = (sim.regs.get(first + k, 0) & 0xFFFF).to_bytes(2, "big")
            lo = rnd.randrange(0, max(1, n - 2)) if fam != "ES" or rnd.random() < 0.4 else min(rnd.choice((0, 0, 5, 31, 51)), max(0, n - 1))     # (ES field starts)
            hi = min(n, lo + rnd.choice((2, 10, 12, 16)))
            base[lo:hi] = blk[lo:hi]
            blk = base
        if fam == "ES" and style == "padded":
            # the firmware field (5 characters: DSP1, DSP2, ARM) shorter than usual, blank-padded or cut off by the end of the payload
            blk[0:min(5, n)] = rnd.choice((b"0410 ", b"2225 ", b"04   ", b"0    ", b"     ", b"041  ", b"22 5F", b"0410"))[:min(5, n)]
        if fam == "ES":
            sim.info = bytes(blk)
        else:
            sim.set_bytes(35000 if fam == "ET" else 30001, bytes(blk))
        if fam == "DT":
            # the two further identification reads of the DT family (model-name fallback 0x9CED x 8, meter version 0x756F x 20) answer in the same style
            sim.set_bytes(0x9CED, content(16))
            sim.set_bytes(0x756F, content(40))
        poll = i % 2 == 1
        if poll:
            # ... and so do the runtime blocks: the poll that follows takes every answer as well (what the values decode to is C11's and C12's subject)
            blk = bytearray(n)
            sim = models.family_sim(fam, rnd=rnd, style=rnd.choice(("ff", "zero", "sentinel", "random", "smallconst")) if fam != "ES" else rnd.choice(("ff", "zero", "random")))
            if fam == "ET":
                sim.regs[35184] = rnd.choice((1, 1, 2, 0xFFFF, 0))
            part.count("polls_with_arbitrary_block_contents")
        out = {}

        async def flow(loop):
            inv = models.family_cls(g, fam)("inv0", port, 0, 1, 0)
            try:
                await inv.read_device_info()
                if poll:
                    await inv.read_runtime_data()
                    await inv.read_runtime_data()
                out["how"] = "ok"
            except Exception as e:      # noqa
                out["how"] = f"{type(e).__name__}: {str(getattr(e, 'message', '') or e)[:80]}"
        run = engine.run_custom({("inv0", port): sim}, flow, vtime_cap=600, tx_cap=600)
        framing = "aa55" if fam == "ES" else "tcp" if port == 502 else "rtu"
        part.evaluations += 1
        part.see(f"info|{fam}|{port}|{style}")
        case = {"info": True, "seed": spec["seed"], "i": i}
        if run.stop or run.error is not None or out.get("how") != "ok":
            part.violate(f"C02/{framing}/conforming-answer-not-delivered",
                         f"{fam} port {port}: read_device_info()" + (" + 2 x read_runtime_data() against arbitrary runtime block contents" if poll else "") +
                         f" against an inverter whose identification block is {bytes(blk).hex()} ({style}) ended "
                         f"{out.get('how') or run.stop or repr(run.error)[:100]}: every request was answered with a conforming frame", case)
        else:
            part.count("device_info_arbitrary_bytes")


def run_shard(spec):
    part = Part()
    contracts.install_validator_contracts(contracts.Sink(part))
    if spec.get("typed"):
        typed_writes(part)
    if spec.get("n_info"):
        device_info_payloads(spec, part)
    if spec["mode"] == "direct":
        direct(spec, part)
    elif spec["mode"] == "overlap":
        overlap(spec, part)
    elif spec["mode"] == "sameobj":
        same_object(spec, part)
    else:
        end_to_end(spec, part)
    # C01 contract findings that surface here are C01's business; keep only C02 keys
    part.violations = [v for v in part.violations if v["key"].startswith("C02/")]
    part.vkeys = {k: v for k, v in part.vkeys.items() if k.startswith("C02/")}
    return part


def replay(case):
    g = env.goodwe()
    part = Part()
    if case.get("typed"):
        typed_writes(part)
        return [{"key": v["key"], "msg": v["msg"]} for v in part.violations]
    if case.get("info"):
        device_info_payloads({"seed": case["seed"], "n_info": case["i"] + 1}, part)
        return [{"key": v["key"], "msg": v["msg"]} for v in part.violations]
    if case.get("sameobj"):
        same_object({"seed": case["seed"], "n": case["i"] + 1}, part)
        return [{"key": v["key"], "msg": v["msg"]} for v in part.violations]
    if case.get("overlap"):
        overlap({"seed": case["seed"], "n": case["i"] + 1}, part)
        return [{"key": v["key"], "msg": v["msg"]} for v in part.violations]
    if case.get("e2e"):
        run = engine.run_scenario(case["scenario"], peer_factory=ServePeer, quiesce=False)
        rec = run.calls[0]
        print(rec)
        return [] if rec["outcome"] == "ok" else [{"key": "C02/reproduced", "msg": str(rec["outcome"])}]
    d = {k: (bytes.fromhex(v) if k == "data" else v) for k, v in case["cmd"].items()}
    v = verdict(g, make_command(g, d), bytes.fromhex(case["frame"]))
    print("verdict", v)
    return [] if v == "true" else [{"key": "C02/reproduced", "msg": v}]
