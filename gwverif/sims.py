"""Simulated inverters: executable reference models behind the scripted-peer interface (DESIGN.md 2.4).

Independent of the library's codecs (refcodec only).  ModbusSim speaks Modbus RTU-in-AA55-envelope over UDP
and Modbus/TCP; Aa55Sim adds the AA55 command set of the ES family on the same UDP socket.
"""
from __future__ import annotations

from . import refcodec as rc
from .peers import PeerBase, AA55_ACK


class ModbusSim(PeerBase):
    def __init__(self, owner, regs=None, refused=(), default=0, exc_map=None):
        super().__init__(owner)
        self.regs = dict(regs or {})
        self.refused = [tuple(r) for r in refused]      # inclusive (lo, hi) address ranges answered with exception 2
        self.default = default
        self.exc_map = dict(exc_map or {})              # (fc, reg) -> exception code
        self.log = []                                   # (t, n, parsed request dict, raw bytes)
        self.writes = []                                # (t, reg, [values])
        self.silent = False
        self.bad = []                                   # unparsable requests
        self.delay = 0.0                                # answer latency (virtual seconds)
        self.mbap_len_bug = None                        # None | 'request' (echo the request's length 6) | 'bytecount'
        self.fault = None                               # None | 'silent' | 'garbage' | ('recverr', errno) | 'eof' | ('exc', code)

    def send_answer(self, s, resp, n):
        """the answer after `delay`; with frag = (k, gap) in two pieces (the first k bytes, the rest `gap` later)"""
        lt = getattr(self, "lose_tail", 0)
        if lt and len(resp) > lt:
            self.lose_tail = 0
            return self.send(s, resp[:lt], self.delay, n, 1)      # (the rest of this answer is lost on the way)
        xd = getattr(self, "exc_delay", 0.0)
        is_mbap = len(resp) > 7 and resp[2:4] == b"\x00\x00"         # (an RTU answer has a non-zero function code in byte 3)
        if xd and ((not is_mbap and resp[0:2] == b"\xaa\x55" and len(resp) > 3 and resp[3] & 0x80) or (is_mbap and resp[7] & 0x80)):
            return self.send(s, resp, self.delay + xd, n)       # firmware that is slow to refuse (exception answers come late)
        fr = getattr(self, "frag", None)
        if fr and len(resp) > fr[0]:
            self.send(s, resp[:fr[0]], self.delay, n, 1)
            return self.send(s, resp[fr[0]:], self.delay + fr[1], n, 2)
        return self.send(s, resp, self.delay, n)

    def faulty(self, s, kind, frame, n):
        """Fault mode of the whole device (C09/C10 API sweeps); returns True when the request was consumed."""
        f = self.fault
        if f is None:
            return False
        self.loop.ev("sim_fault", self.owner, n, f if isinstance(f, str) else list(f))
        if f == "silent":
            return True
        if f == "garbage":
            self.send(s, bytes((11 * i + n) & 0xFF for i in range(17)), 0, n)
            return True
        if f[0] == "junk":          # a datagram / segment of exactly f[1] bytes, starting like a real header
            head = (b"\xaa\x55\x7f\xc0\x01\x86\x20" if frame[0:4] == b"\xaa\x55\xc0\x7f" and kind != "tcp" and len(frame) > 8 and frame[4] in (1, 2, 3)
                    else b"\xaa\x55\xf7\x03\x04\x00\x01")
            if kind == "tcp":
                head = frame[0:7] + b"\x03\x04"
            if f[1] or kind != "tcp":
                self.send(s, (head + bytes(32))[:f[1]], 0, n)
            return True
        if f == "eof":
            if kind == "tcp":
                self.close_conn(s, 0, n)
            else:
                self.send_error(s, 111, 0, n)
            return True
        if f[0] == "recverr":
            self.send_error(s, f[1], 0, n)
            return True
        if f[0] == "exc":
            try:
                req = rc.parse_tcp_request(frame) if kind == "tcp" else rc.parse_rtu_request(frame)
            except rc.BadFrame:
                return True
            self.send(s, (rc.tcp_exception if kind == "tcp" else rc.rtu_exception)(req, f[1]), 0, n)
            return True
        return False

    # -- register file ---------------------------------------------------------------------------------
    def get(self, a):
        if a in self.regs:
            return self.regs[a]
        return self.default(a) if callable(self.default) else self.default

    def set_bytes(self, addr, data: bytes):
        assert len(data) % 2 == 0
        for i in range(len(data) // 2):
            self.regs[addr + i] = int.from_bytes(data[2 * i:2 * i + 2], "big")

    def get_bytes(self, addr, nregs) -> bytes:
        return b"".join(self.get(addr + i).to_bytes(2, "big") for i in range(nregs))

    def is_refused(self, a, n):
        return any(lo <= a + n - 1 and a <= hi for lo, hi in self.refused)

    def snapshot(self):
        return dict(self.regs)

    # -- protocol --------------------------------------------------------------------------------------
    def on_request(self, s, kind, frame, n):
        if self.fault is not None and not (frame[0:4] == b"\xaa\x55\xc0\x7f" and isinstance(self.fault, tuple) and self.fault[0] == "exc"):
            if self.faulty(s, kind, frame, n):
                return
        try:
            req = rc.parse_tcp_request(frame) if kind == "tcp" else rc.parse_rtu_request(frame)
        except rc.BadFrame as e:
            self.bad.append((n, str(e), frame))
            self.loop.ev("sim_bad", self.owner, n, str(e))
            return
        self.log.append((round(self.loop.time(), 9), n, req, frame))
        self.loop.ev("sim", self.owner, n, req["kind"], req["reg"])
        if self.silent or req["reg"] in getattr(self, "silent_regs", ()):
            self.unanswered = getattr(self, "unanswered", set()) | {len(self.log) - 1}      # (indices into log: requests that got no answer)
            return
        resp = self.handle(req, kind)
        if resp is not None and kind == "tcp" and self.mbap_len_bug and len(resp) > 9 and resp[7] == 3:
            wrong = 6 if self.mbap_len_bug == "request" else resp[8]
            resp = resp[0:4] + wrong.to_bytes(2, "big") + resp[6:]
        if resp is not None and getattr(self, "stray", b"") and ((kind == "tcp" and resp[7] == 3) or (kind != "tcp" and resp[3] == 3)):
            resp = resp + self.stray        # firmware that appends stray bytes to read answers (tolerated by the validators on purpose)
        rt = getattr(self, "resp_txid", None)
        if resp is not None and kind == "tcp" and rt is not None:
            # a gateway that does not echo the transaction id: always the same id / the id of the previous request (the library's
            # validator deliberately ignores that field)
            tid = rt if isinstance(rt, int) else getattr(self, "_prev_txid", 1)
            self._prev_txid = int.from_bytes(resp[0:2], "big")
            resp = tid.to_bytes(2, "big") + resp[2:]
        if resp is not None:
            self.send_answer(s, resp, n)

    def handle(self, req, kind):
        exc = rc.tcp_exception if kind == "tcp" else rc.rtu_exception
        ok = rc.tcp_response if kind == "tcp" else rc.rtu_response
        k, reg = req["kind"], req["reg"]
        code = self.exc_map.get((rc.fc_of(req), reg))
        if code is None:
            code = self.exc_map.get((rc.fc_of(req), reg, req.get("count")))
        if code is not None:        # (exception code 0 is a code like any other)
            return exc(req, code)
        if k == "read":
            cnt = req["count"]
            if cnt == 0 and getattr(self, "zero_count_ok", False):
                return ok(req, b"")          # lenient firmware: a read of zero registers is answered with an empty payload
            if cnt < 1 or cnt > 125:
                return exc(req, 3)
            if self.is_refused(reg, cnt):
                return exc(req, 2)
            out_ = ok(req, self.get_bytes(reg, cnt))
            if getattr(self, "drift", False) == "meter":
                # only the METER values move on between polls; the running-data block (clock included) stays byte-identical
                if reg in (30195, 36000):
                    for a_ in (reg + 1, reg + 2, reg + 5):
                        self.regs[a_] = (self.get(a_) + 1) % 5000
            elif getattr(self, "drift", False) and cnt > 20:
                # measurements move on between polls: the PV1 voltage rises by 0.1 V after every block read that contains it
                for a_ in (35103, 30103):
                    if reg <= a_ < reg + cnt:
                        self.regs[a_] = (self.get(a_) + 1) % 6000
            return out_
        if k == "write":
            if self.is_refused(reg, 1):
                return exc(req, 2)
            self.regs[reg] = req["value"] & 0xFFFF
            self.writes.append((round(self.loop.time(), 9), reg, [req["value"] & 0xFFFF]))
            self.on_write(reg, 1)
            if reg in getattr(self, "ack_exc", {}):      # firmware that APPLIES the write and answers with an exception frame (5 ACKNOWLEDGE:
                return exc(req, self.ack_exc[reg])        # "accepted, processing takes long"); only the first transmission is answered so
            return ok(req)
        cnt = req["count"]
        if self.is_refused(reg, cnt):
            return exc(req, 2)
        vals = [int.from_bytes(req["data"][2 * i:2 * i + 2], "big") for i in range(cnt)]
        for i, v in enumerate(vals):
            self.regs[reg + i] = v
        self.writes.append((round(self.loop.time(), 9), reg, vals))
        self.on_write(reg, cnt)
        if reg in getattr(self, "ack_exc", {}):
            return exc(req, self.ack_exc[reg])
        return ok(req)

    def on_write(self, reg, cnt):
        pass


# ---- device-info blocks ------------------------------------------------------------------------------
def et_device_info(serial: str, rated_power: int, model=b"GW10K-ET  ", ac_output_type=1, dsp1=4, dsp2=4,
                   arm=19, fw=b"04029-06-S11", arm_fw=b"02041-17-S00") -> dict:
    blk = bytearray(66)
    blk[0:2] = (1).to_bytes(2, "big")
    blk[2:4] = (rated_power & 0xFFFF).to_bytes(2, "big")
    blk[4:6] = ac_output_type.to_bytes(2, "big")
    blk[6:22] = serial.encode("latin-1").ljust(16)[:16] if isinstance(serial, str) else bytes(serial).ljust(16)[:16]
    blk[22:32] = bytes(model).ljust(10)[:10]
    blk[32:34] = dsp1.to_bytes(2, "big")
    blk[34:36] = dsp2.to_bytes(2, "big")
    blk[36:38] = (0).to_bytes(2, "big")
    blk[38:40] = arm.to_bytes(2, "big")
    blk[40:42] = (0).to_bytes(2, "big")
    blk[42:54] = bytes(fw).ljust(12)[:12]
    blk[54:66] = bytes(arm_fw).ljust(12)[:12]
    return {35000 + i: int.from_bytes(blk[2 * i:2 * i + 2], "big") for i in range(33)}


def dt_device_info(serial: str, model=b"GW6000-DT ", dsp1=15, dsp2=15, arm=16) -> dict:
    blk = bytearray(80)
    blk[6:22] = serial.encode("latin-1").ljust(16)[:16] if isinstance(serial, str) else bytes(serial).ljust(16)[:16]
    blk[22:32] = bytes(model).ljust(10)[:10]
    blk[66:68] = dsp1.to_bytes(2, "big")
    blk[68:70] = dsp2.to_bytes(2, "big")
    blk[70:72] = arm.to_bytes(2, "big")
    return {30001 + i: int.from_bytes(blk[2 * i:2 * i + 2], "big") for i in range(40)}


def es_device_info(serial="95048ESU000W0000", fw=b"02525", model=b"GW5048-ESA", arm_fw=b"410-02034-20") -> bytes:
    info = bytearray(64)
    info[0:5] = bytes(fw).ljust(5)[:5]
    info[5:15] = bytes(model).ljust(10)[:10]
    info[31:47] = serial.encode("latin-1").ljust(16)[:16] if isinstance(serial, str) else bytes(serial).ljust(16)[:16]
    info[51:63] = bytes(arm_fw).ljust(12)[:12]
    return bytes(info)


class Aa55Sim(ModbusSim):
    """ES-family inverter: AA55 identification / runtime / settings blocks, 011A/0239 register access and the
    03xx setter commands mapped onto the settings block (documented map: settings block = registers from 0x550);
    Modbus RTU requests on the same socket are served from the register file (eco-mode v2 registers)."""

    def __init__(self, owner, info: bytes = None, runtime: bytes = None, settings: bytes = None, regs=None,
                 refused=(), runtime_len=142, settings_len=86):
        super().__init__(owner, regs=regs, refused=refused)
        self.info = info if info is not None else es_device_info()
        self.runtime = bytearray(runtime if runtime is not None else bytes(runtime_len))
        self.settings = bytearray(settings if settings is not None else bytes(settings_len))
        self.aa55_log = []          # (t, n, cmd hex, payload bytes)
        self.unknown = []
        for base in (1793, 1797, 1801, 1805):       # eco-mode v1 groups: 'off' pattern
            if base not in self.regs:
                self.regs.update({base: 0x3000, base + 1: 0x3000, base + 2: 0x0064, base + 3: 0x0000})

    def on_request(self, s, kind, frame, n):
        if frame[0:4] != b"\xaa\x55\xc0\x7f":
            return super().on_request(s, kind, frame, n)
        if self.fault is not None and not (isinstance(self.fault, tuple) and self.fault[0] == "exc"):
            if self.faulty(s, kind, frame, n):
                return
        try:
            req = rc.parse_aa55_request(frame)
        except rc.BadFrame as e:
            self.bad.append((n, str(e), frame))
            self.loop.ev("sim_bad", self.owner, n, str(e))
            return
        c, pl = req["cmd"], req["payload"]
        self.aa55_log.append((round(self.loop.time(), 9), n, c, pl))
        self.loop.ev("sim", self.owner, n, "aa55", c)
        if self.silent:
            return
        rtype = AA55_ACK.get(c, "%02x%02x" % (int(c[0:2], 16), int(c[2:4], 16) | 0x80))
        ack = b"\x06"
        if c == "0102":
            out = self.info
        elif c == "0106":
            out = bytes(self.runtime)
            if getattr(self, "drift", False) and len(self.runtime) > 2:
                self.runtime = bytearray(self.runtime)
                self.runtime[1] = (self.runtime[1] + 1) % 200      # (vpv1 moves on between polls)
        elif c == "0109":
            out = bytes(self.settings)
        elif c == "011a":
            reg, cnt = int.from_bytes(pl[0:2], "big"), pl[2]
            out = self.get_bytes(reg, cnt)
        elif c == "0239":
            reg, nb, data = int.from_bytes(pl[0:2], "big"), pl[2], pl[3:]
            if not ((nb == 1 and len(data) == 2) or (nb == len(data) and nb % 2 == 0)):
                self.bad.append((n, f"0239 write: length field {nb} vs data {len(data)}", frame))
                return
            vals = [int.from_bytes(data[2 * i:2 * i + 2], "big") for i in range(len(data) // 2)]
            for i, v in enumerate(vals):
                self.setreg(reg + i, v)
            self.writes.append((round(self.loop.time(), 9), reg, vals))
            out = ack
        elif c == "0359":
            self.settings[66:68] = pl[0].to_bytes(2, "big")
            self.writes.append((round(self.loop.time(), 9), "work_mode", [pl[0]]))
            out = ack
        elif c == "0335":
            self.settings[52:54] = pl[0:2]
            self.writes.append((round(self.loop.time(), 9), "export_limit", [int.from_bytes(pl[0:2], "big")]))
            out = ack
        elif c[0:2] == "03":
            self.writes.append((round(self.loop.time(), 9), "cmd" + c, list(pl)))
            out = ack
        else:
            self.unknown.append((n, c))
            return
        self.send_answer(s, rc.aa55_response(rtype, out), n)

    def setreg(self, reg, v):
        self.regs[reg] = v & 0xFFFF
        if 0x550 <= reg < 0x550 + len(self.settings) // 2:
            o = (reg - 0x550) * 2
            self.settings[o:o + 2] = (v & 0xFFFF).to_bytes(2, "big")
