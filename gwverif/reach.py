"""Line-reach counters (sys.monitoring, Python 3.12): which executable lines of goodwe/*.py a workload really executed.

LINE events are restricted to code objects whose file lies in the tree under test; the callback returns DISABLE, so every
location costs one event.  Pure evidence: says where the monitors had a chance to observe anything."""
from __future__ import annotations

import os
import sys
import types

from . import env

_hits = set()
_on = False


def start():
    global _on
    mon = getattr(sys, "monitoring", None)
    if mon is None or _on:
        return
    root = os.path.realpath(os.path.join(env.REPO, "goodwe")) + os.sep
    tool = mon.COVERAGE_ID
    try:
        mon.use_tool_id(tool, "gwverif-reach")
    except ValueError:
        return

    def on_line(code, line):
        fn = code.co_filename
        if fn.startswith(root) or os.path.realpath(fn).startswith(root):
            _hits.add((os.path.basename(fn), line))
        return mon.DISABLE

    mon.register_callback(tool, mon.events.LINE, on_line)
    mon.set_events(tool, mon.events.LINE)
    _on = True


def hits():
    out = {}
    for f, l in _hits:
        out.setdefault(f, []).append(l)
    return {f: sorted(v) for f, v in out.items()}


def executable_lines():
    """{file: sorted executable line numbers} of the goodwe package under test."""
    g = env.goodwe()
    root = os.path.dirname(g.__file__)
    res = {}
    for fn in sorted(os.listdir(root)):
        if not fn.endswith(".py"):
            continue
        try:
            code = compile(open(os.path.join(root, fn)).read(), fn, "exec")
        except SyntaxError:
            continue
        lines = set()
        stack = [code]
        while stack:
            c = stack.pop()
            for _s, _e, ln in c.co_lines():
                if ln:
                    lines.add(ln)
            stack.extend(k for k in c.co_consts if isinstance(k, types.CodeType))
        res[fn] = sorted(lines)
    return res
