"""Register blocks of the three families: (read command, sensor table) pairs taken from a live inverter object,
and helpers to build exact-length responses for them with the independent encoder."""
from __future__ import annotations

from . import refcodec as rc


def family_blocks(g, fam, port=8899):
    """[{name, cmd, first, count, sensors, framing}] for the runtime blocks of a family."""
    framing = "tcp" if port == 502 else "rtu"
    out = []
    if fam == "ET":
        inv = g.ET("h", port)
        cls = g.ET
        allm = cls._ET__all_sensors_meter
        out = [
            ("running", inv._READ_RUNNING_DATA, cls._ET__all_sensors),
            ("battery", inv._READ_BATTERY_INFO, cls._ET__all_sensors_battery),
            ("battery2", inv._READ_BATTERY2_INFO, cls._ET__all_sensors_battery2),
            ("meter_basic", inv._READ_METER_DATA, tuple(s for s in allm if s.offset < 36045)),
            ("meter_ext", inv._READ_METER_DATA_EXTENDED, tuple(s for s in allm if s.offset < 36058)),
            ("meter_ext2", inv._READ_METER_DATA_EXTENDED2, allm),
            ("mppt", inv._READ_MPPT_DATA, cls._ET__all_sensors_mppt),
        ]
    elif fam == "DT":
        inv = g.DT("h", port)
        cls = g.DT
        out = [("running", inv._READ_RUNNING_DATA, cls._DT__all_sensors),
               ("meter", inv._READ_METER_DATA, cls._DT__all_sensors_meter)]
    else:
        inv = g.ES("h", 8899)
        cls = g.ES
        framing = "aa55"
        out = [("runtime", inv._READ_DEVICE_RUNNING_DATA, cls._ES__sensors),
               ("settings", inv._READ_DEVICE_SETTINGS_DATA, tuple(s for s in cls._ES__all_settings if s.offset < 1000))]
    res = []
    for name, cmd, sensors in out:
        b = {"name": name, "cmd": cmd, "sensors": sensors, "framing": framing, "family": fam}
        if framing != "aa55":
            b["first"], b["count"] = cmd.first_address, cmd.value
            b["nbytes"] = 2 * cmd.value
        else:
            b["first"], b["count"] = 0, None
            b["nbytes"] = {"runtime": 142, "settings": 86}[name]
        res.append(b)
    return res


def settings_tables(g, fam):
    if fam == "ET":
        c = g.ET
        return {"all": c._ET__all_settings, "fw19": c._ET__settings_arm_fw_19, "fw22": c._ET__settings_arm_fw_22}
    if fam == "DT":
        c = g.DT
        return {"all": c._DT__all_settings, "single": c._DT__settings_single_phase, "three": c._DT__settings_three_phase}
    c = g.ES
    return {"all": c._ES__all_settings, "fw14": c._ES__settings_arm_fw_14}


def make_response(g, block, payload: bytes, comm=0xF7):
    """ProtocolResponse for an exact-length answer carrying `payload`, built with the independent encoder."""
    f = block["framing"]
    if f == "rtu":
        raw = rc.rtu_response({"kind": "read", "comm": comm, "reg": block["first"], "count": len(payload) // 2}, payload)
    elif f == "tcp":
        raw = rc.tcp_response({"kind": "read", "comm": comm, "reg": block["first"], "count": len(payload) // 2}, payload, txid=1)
    else:
        raw = rc.aa55_response("0186" if block["name"] == "runtime" else "0189", payload)
    return g.protocol.ProtocolResponse(raw, block["cmd"])


def pos_of(block, sensor_or_addr):
    """Byte position of a register address / AA55 offset inside the payload of the block (independent of get_offset)."""
    a = sensor_or_addr if isinstance(sensor_or_addr, int) else sensor_or_addr.offset
    if block["framing"] == "aa55":
        return a
    return (a - block["first"]) * 2


def single_response(g, fam, port, sensor, payload: bytes, comm=0xF7):
    """Response to the single-sensor read of `sensor` (first address = the sensor's own register)."""
    framing = "tcp" if port == 502 else "rtu"
    count = len(payload) // 2
    req = {"kind": "read", "comm": comm, "reg": sensor.offset, "count": count}
    P = g.protocol
    if framing == "rtu":
        return P.ProtocolResponse(rc.rtu_response(req, payload), P.ModbusRtuReadCommand(comm, sensor.offset, count))
    return P.ProtocolResponse(rc.tcp_response(req, payload, txid=1), P.ModbusTcpReadCommand(comm, sensor.offset, count))


def fast_response(g, block, payload: bytes, comm=0xF7):
    """Like make_response but without computing checksums (ProtocolResponse only trims header/trailer)."""
    f = block["framing"]
    if f == "rtu":
        raw = b"\xaa\x55" + bytes([comm, 3, len(payload) & 0xFF]) + payload + b"\x00\x00"
    elif f == "tcp":
        raw = b"\x00\x01\x00\x00" + (3 + len(payload)).to_bytes(2, "big") + bytes([comm, 3, len(payload) & 0xFF]) + payload
    else:
        raw = b"\xaa\x55\x7f\xc0\x01" + (b"\x86" if block["name"] == "runtime" else b"\x89") + bytes([len(payload) & 0xFF]) \
            + payload + b"\x00\x00"
    return g.protocol.ProtocolResponse(raw, block["cmd"])


def styled_payload(rnd, n, style):
    if style == "zero":
        return bytes(n)
    if style == "ff":
        return b"\xff" * n
    if style == "sentinel":
        words = (b"\x00\x00", b"\xff\xff", b"\x7f\xff", b"\x80\x00", b"\xff\xfe", b"\x00\x01")
        return b"".join(rnd.choice(words) for _ in range(n // 2 + 1))[:n]
    if style == "mixed":
        words = (b"\x00\x00", b"\xff\xff", b"\x7f\xff", b"\x80\x00")
        return b"".join(rnd.choice(words) if rnd.random() < 0.4 else bytes((rnd.randrange(256), rnd.randrange(256)))
                        for _ in range(n // 2 + 1))[:n]
    if style == "harvest":
        # words / double words holding integer constants found in the source under test (and their neighbours), two's complement
        from . import env
        hv = env.harvest_ints()
        out = bytearray()
        while len(out) < n:
            v = rnd.choice(hv)
            r = rnd.random()
            if r < 0.45 and -32768 <= v < 65536:
                out += (v & 0xFFFF).to_bytes(2, "big")
            elif r < 0.8:
                out += (v & 0xFFFFFFFF).to_bytes(4, "big")
            elif r < 0.9:
                out += bytes(2)
            else:
                out += bytes((rnd.randrange(256), rnd.randrange(256)))
        return bytes(out[:n])
    return bytes(rnd.randrange(256) for _ in range(n))
