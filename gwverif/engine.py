"""Scenario engine for the control-plane checks (C03-C10, C20): runs the REAL library against scripted
peers / simulators on the virtual-time loop and returns the recorded wire + API history.

A scenario is a JSON-able dict (so it can be written into a replay file and re-run bit for bit):

  {"transport": "udp"|"tcp", "framing": "rtu"|"tcp"|"aa55", "keep_alive": bool, "T": 1, "R": 2,
   "script": [sym, ...], "after": "drop", "connect": [...], "send_faults": {"k": errno},
   "tasks": [{"start": 0.0, "steps": [["read", reg, count] | ["write", reg, value] | ["multi", reg, hex]
                                      | ["close"] | ["sleep", dt] | ["api", name, args...]]}, ...],
   "segments": [tasks, tasks, ...]      # optional: each segment runs on a NEW event loop (asyncio.run style)
  }
"""
from __future__ import annotations

import asyncio
import gc
import warnings

from . import env
from .peers import ScriptedPeer
from .vloop import VLoop, Hang, Runaway, cpu_guard

HOST = "inv0"


def _port(sc):
    return 502 if sc["transport"] == "tcp" else 8899


def make_inverter(sc, host=HOST):
    g = env.goodwe()
    fam = sc.get("family")
    if fam is None:
        fam = "ES" if sc["framing"] == "aa55" else "ET"
    cls = {"ET": g.ET, "DT": g.DT, "ES": g.ES}[fam]
    inv = cls(host, _port(sc), sc.get("comm", 0), sc["T"], sc["R"])
    inv.set_keep_alive(bool(sc.get("keep_alive")))
    return inv


def proto_state(inv):
    p = inv._protocol
    tr = getattr(p, "_transport", None)
    fut = getattr(p, "response_future", None)
    tm = getattr(p, "_timer", None)
    return {
        "transport": None if tr is None else ("closing" if tr.is_closing() else "open"),
        "future": None if fut is None else ("done" if fut.done() else "pending"),
        "timer": None if tm is None else ("cancelled" if tm.cancelled() else "armed"),
        "retry": getattr(p, "_retry", None),
        "locked": bool(getattr(p, "_lock", None) and p._lock.locked()),
        "partial": bool(getattr(p, "_partial_data", None)),
    }


def _outcome(exc):
    if exc is None:
        return "ok"
    return type(exc).__name__


async def do_step(inv, step, loop, peer=None):
    """Execute one API step; returns a JSON-able result value."""
    g = env.goodwe()
    op = step[0]
    if op == "read":
        resp = await inv._read_from_socket(inv._read_command(step[1], step[2]))
        return {"raw": resp.raw_data.hex(), "data": resp.response_data().hex()}
    if op == "write":
        resp = await inv._read_from_socket(inv._write_command(step[1], step[2]))
        return {"raw": resp.raw_data.hex(), "data": resp.response_data().hex()}
    if op == "multi":
        resp = await inv._read_from_socket(inv._write_multi_command(step[1], bytes.fromhex(step[2])))
        return {"raw": resp.raw_data.hex(), "data": resp.response_data().hex()}
    if op == "unitcmd":            # a command object built directly for ANOTHER unit address, run on this inverter's transport
        P = g.protocol
        tcp = isinstance(inv._protocol, P.TcpInverterProtocol)
        kind, unit, reg, val = step[1], step[2], step[3], step[4]
        cls = {("read", False): P.ModbusRtuReadCommand, ("write", False): P.ModbusRtuWriteCommand, ("multi", False): P.ModbusRtuWriteMultiCommand,
               ("read", True): P.ModbusTcpReadCommand, ("write", True): P.ModbusTcpWriteCommand, ("multi", True): P.ModbusTcpWriteMultiCommand}[(kind, tcp)]
        resp = await inv._read_from_socket(cls(unit, reg, bytes.fromhex(val) if kind == "multi" else val))
        return {"raw": resp.raw_data.hex()}
    if op == "aa55":
        resp = await inv._read_from_socket(g.protocol.Aa55ProtocolCommand(step[1], step[2]))
        return {"raw": resp.raw_data.hex()}
    if op == "rsensor":            # public: read_sensor("modbus-<reg>")
        return {"value": await inv.read_sensor(f"modbus-{step[1]}")}
    if op == "wsetting":           # public: write_setting("modbus-<reg>", v)
        await inv.write_setting(f"modbus-{step[1]}", step[2])
        return {}
    if op == "rawcmd":             # public: send_command(bytes) with the default validator
        resp = await inv.send_command(bytes.fromhex(step[1]))
        return {"raw": resp.raw_data.hex()}
    if op == "close":
        await inv._protocol.close()
        return {}
    if op == "arm_connect":        # the next TCP connection attempts end like this (prepended to the connect script)
        loop.connect_scripts.setdefault(peer.owner if peer else HOST, [])[0:0] = list(step[1])
        return {}
    if op == "arm_send_fault":
        loop.armed_send_faults.append(step[1])
        return {}
    if op == "sleep":
        await asyncio.sleep(step[1])
        return {}
    if op == "peerdrop":           # the peer drops every connection / socket it holds (idle connection loss)
        loop.ev("peerdrop", peer.owner)
        for s_ in list(peer.socks):
            if s_.type & 0xF == 1:
                peer._drop_sock(s_)
            else:
                peer.send_error(s_, 111, 0, 0)
        await asyncio.sleep(0)
        await asyncio.sleep(0)
        return {}
    if op == "b2b":                # two steps back to back: the second starts in the same loop iteration in which the first ended (as the
        first = "ok"               # family classes do inside read_device_info / read_runtime_data); the first one's failure is recorded
        try:
            await do_step(inv, step[1], loop, peer)
        except Exception as e:      # noqa
            first = type(e).__name__
        res = await do_step(inv, step[2], loop, peer)
        return dict(res, first=first)
    if op == "api":
        r = getattr(inv, step[1])(*step[2:])
        if asyncio.iscoroutine(r):
            r = await r
        return {"value": repr(r)[:200]}
    raise ValueError(step)


class Run:
    """Everything observed in one scenario run."""

    def __init__(self):
        self.events = []          # (t, kind, ...)
        self.calls = []           # dict per API call: task, idx, step, t0, t1, outcome, exc_msg, result, cfc
        self.quiesce = []         # dict per quiescent point
        self.loop_errors = []
        self.stop = None          # HANG / RUNAWAY text
        self.warnings = []
        self.peer = None
        self.inv = None

    def txs(self, owner=None):
        return [e for e in self.events if e[1] == "tx" and (owner is None or e[3] == owner)]


def run_scenario(sc, peer_factory=None, inv_factory=None, quiesce=True) -> Run:
    T = sc["T"]
    run = Run()
    segments = sc.get("segments") or [sc["tasks"]]
    inv = (inv_factory or make_inverter)(sc)
    run.inv = inv
    if peer_factory:
        peer = peer_factory(sc)
    elif sc.get("by_reg") is not None:
        from .peers import RegScriptPeer
        peer = RegScriptPeer(HOST, sc["framing"], sc["by_reg"], T, after=sc.get("after", "drop"))
        if sc.get("const_payload") is not None:       # every read answer carries the same byte (consecutive answers byte-identical)
            peer.payload_fn = lambda req, n, b=sc["const_payload"]: bytes([b]) * (2 * req["count"])
    else:
        peer = ScriptedPeer(HOST, sc["framing"], [tuple(s) if isinstance(s, list) else s for s in sc.get("script", [])],
                            T, after=sc.get("after", "drop"),
                            **({"aa55_payload": bytes.fromhex(sc["aa55_payload"])} if sc.get("aa55_payload") else {}))
    run.peer = peer
    peer.default_hops = int(sc.get("hops", 0))
    vnow = 0.0
    seq = [0]
    old_loops = []
    shared_live = {}

    with warnings.catch_warnings(record=True) as wlist:
        warnings.simplefilter("always")
        for seg_i, tasks in enumerate(segments):
            loop = VLoop()
            loop._vnow = vnow
            loop.events = run.events
            loop.live = shared_live         # sockets opened on an earlier event loop of this run still count as open
            loop.loop_errors = run.loop_errors
            loop.vtime_cap = vnow + sc.get("vtime_cap", 600.0)
            loop.tx_cap = sc.get("tx_cap", 400)
            asyncio.set_event_loop(loop)
            peer.bind(loop)
            loop.register(HOST, _port(sc), peer, HOST)
            if seg_i == 0:
                loop.connect_scripts[HOST] = list(sc.get("connect", []))
                loop.send_faults = {(HOST, int(k)): v for k, v in (sc.get("send_faults") or {}).items()}
                cs, sf = loop.connect_scripts, loop.send_faults
                ntx_owner = loop._ntx_owner
            else:
                loop.connect_scripts, loop.send_faults, loop._ntx_owner = cs, sf, ntx_owner
            loop.ev("segment", seg_i)

            async def task_main(ti, task):
                if task.get("start"):
                    await asyncio.sleep(task["start"])
                for si, step in enumerate(task["steps"]):
                    seq[0] += 1
                    cid = seq[0]
                    rec = {"id": cid, "seg": seg_i, "task": ti, "idx": si, "step": step, "t0": round(loop.time(), 9)}
                    loop.ev("call", cid, ti, step[0])
                    try:
                        rec["result"] = await do_step(inv, step, loop, peer)
                        rec["outcome"] = "ok"
                    except asyncio.CancelledError as e:      # must never escape a public coroutine (unless cancel_at)
                        rec["outcome"] = "CancelledError"
                        rec["msg"] = str(e)
                        if task.get("cancel_at") is not None:
                            rec["t1"] = round(loop.time(), 9)
                            loop.ev("ret", cid, ti, rec["outcome"])
                            run.calls.append(rec)
                            raise
                    except Exception as e:                    # noqa
                        rec["outcome"] = type(e).__name__
                        rec["msg"] = str(getattr(e, "message", "") or e)[:300]
                        if hasattr(e, "consecutive_failures_count"):
                            rec["cfc"] = e.consecutive_failures_count
                    rec["t1"] = round(loop.time(), 9)
                    rec["open_at_return"] = len(loop.open_transports())      # (the very moment the caller gets control back, before the loop runs again)
                    loop.ev("ret", cid, ti, rec["outcome"])
                    run.calls.append(rec)
                    if quiesce and len(tasks) == 1:
                        await asyncio.sleep(0)
                        await asyncio.sleep(0)
                        if sc.get('gc_quiesce'):
                            gc.collect()
                        st = proto_state(inv)
                        st.update(id=cid, live=len(loop.live), live_sids=sorted(loop.live), t=round(loop.time(), 9))
                        run.quiesce.append(st)

            async def main():
                ts = [asyncio.ensure_future(task_main(i, t)) for i, t in enumerate(tasks)]
                for i, t in enumerate(tasks):
                    if t.get("cancel_at") is not None:       # the caller's own task is cancelled from outside
                        loop.call_later(t["cancel_at"], lambda tk=ts[i], k=i: (loop.ev("cancel", k), tk.cancel()))
                await asyncio.gather(*ts, return_exceptions=True)
                await asyncio.sleep(0)
                await asyncio.sleep(0)
                if sc.get("gc"):
                    gc.collect()        # surfaces 'exception was never retrieved' through the loop's handler
                    await asyncio.sleep(0)

            try:
                with cpu_guard():
                    loop.run_until_complete(main())
            except Hang as h:
                run.stop = "HANG: " + str(h)
            except Runaway as r:
                run.stop = "RUNAWAY: " + str(r)
            vnow = loop._vnow
            run.end_live = dict(loop.live)
            run.end_state = proto_state(inv)
            if run.stop:
                loop.shutdown()
                break
            if seg_i < len(segments) - 1:
                if sc.get("keep_loops_open"):
                    # new_event_loop() + run_until_complete() semantics: the previous loop object stays open (it just no longer runs)
                    old_loops.append(loop)
                    continue
                # asyncio.run() semantics: the loop is closed, the library object lives on
                try:
                    loop.run_until_complete(loop.shutdown_asyncgens())
                except BaseException:
                    pass
                loop.close()
            else:
                loop.shutdown()
        for ol in old_loops:
            try:
                ol.shutdown()
            except BaseException:      # noqa
                pass
        run.warnings = [f"{w.category.__name__}: {w.message}" for w in wlist
                        if issubclass(w.category, (ResourceWarning, RuntimeWarning))]
    asyncio.set_event_loop(None)
    return run


# ---- helpers over the event log ---------------------------------------------------------------------
def events_of_call(run: Run, cid: int):
    """Events between call(cid) and ret(cid) (single-task scenarios)."""
    out, on = [], False
    for e in run.events:
        if e[1] == "call" and e[2] == cid:
            on = True
            continue
        if e[1] == "ret" and e[2] == cid:
            break
        if on:
            out.append(e)
    return out


def jsonable_events(events, limit=400):
    out = []
    for e in events[:limit]:
        out.append([x.hex() if isinstance(x, (bytes, bytearray)) else (list(x) if isinstance(x, tuple) else x) for x in e])
    return out


def run_custom(peers: dict, coro_factory, connect_scripts=None, vtime_cap=900.0, tx_cap=600):
    """Run `await coro_factory(loop)` on a fresh VLoop with peers {(host, port): peer}.  Returns a Run
    (events, stop, loop_errors, warnings) with run.result / run.error set."""
    run = Run()
    with warnings.catch_warnings(record=True) as wlist:
        warnings.simplefilter("always")
        loop = VLoop()
        loop.events = run.events
        loop.loop_errors = run.loop_errors
        loop.vtime_cap = vtime_cap
        loop.tx_cap = tx_cap
        asyncio.set_event_loop(loop)
        for (host, port), peer in peers.items():
            peer.bind(loop)
            loop.register(host, port, peer, peer.owner)
        if connect_scripts:
            loop.connect_scripts.update(connect_scripts)
        run.result = None
        run.error = None
        run.loop = loop

        async def main():
            try:
                run.result = await coro_factory(loop)
            except asyncio.CancelledError as e:
                run.error = e
            except Exception as e:      # noqa
                run.error = e
            await asyncio.sleep(0)
            await asyncio.sleep(0)

        try:
            with cpu_guard():
                loop.run_until_complete(main())
        except Hang as h:
            run.stop = "HANG: " + str(h)
        except Runaway as r:
            run.stop = "RUNAWAY: " + str(r)
        run.end_live = dict(loop.live)
        run.t_end = loop._vnow
        loop.shutdown()
        run.warnings = [f"{w.category.__name__}: {w.message}" for w in wlist
                        if issubclass(w.category, (ResourceWarning, RuntimeWarning))]
    asyncio.set_event_loop(None)
    return run


_exec_hooked = False


def install_exec_hook():
    """Log the begin/end of every ProtocolCommand.execute() into the VLoop event log (request boundaries for
    entry points such as discover() that issue several requests internally)."""
    global _exec_hooked
    if _exec_hooked:
        return
    _exec_hooked = True
    g = env.goodwe()
    orig = g.protocol.ProtocolCommand.execute
    seq = [0]

    async def execute(self, protocol):
        loop = asyncio.get_running_loop()
        seq[0] += 1
        k = seq[0]
        if isinstance(loop, VLoop):
            loop.ev("exec", k)
        try:
            return await orig(self, protocol)
        finally:
            if isinstance(loop, VLoop):
                loop.ev("exec_end", k)

    g.protocol.ProtocolCommand.execute = execute


def probes(events, owner=None, strip_txid=False):
    """Group transmissions into probes: maximal runs of identical frames within one execute() call (when the
    exec hook is installed) and with no delivery in between.  Returns [(frame, [times])]."""
    out = []
    cur = None
    for e in events:
        if e[1] == "exec":
            cur = None
            continue
        if e[1] == "tx" and (owner is None or e[3] == owner):
            fr = e[4][2:] if strip_txid else e[4]
            if cur is not None and cur[0] == fr:
                cur[1].append(e[0])
            else:
                cur = (fr, [e[0]])
                out.append(cur)
        elif e[1] in ("rx", "rxerr") and (owner is None or e[3] == owner):
            cur = None
    return out
