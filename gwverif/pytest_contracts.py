"""pytest plugin: run the repository's own tests with the C01 / C03 contracts attached (DESIGN.md 2.8).

    cd /repo && PYTHONPATH=/verif /venv/bin/python -m pytest -q -p no:cacheprovider -p gwverif.pytest_contracts

A contract firing there is either too strict or a defect the tests do not assert - the witness is printed.
"""
import os
import sys

_part = None


def pytest_configure(config):
    global _part
    os.environ.setdefault("GOODWE_VERIF_REPO", os.getcwd())
    from gwverif import env
    env.ensure_deps()
    from gwverif import contracts
    from gwverif.runner import Part
    env.goodwe()
    _part = Part()
    contracts.install_validator_contracts(contracts.Sink(_part))
    contracts.install_request_contracts(contracts.Sink(_part))


def pytest_sessionfinish(session, exitstatus):
    from gwverif import contracts
    ev = contracts.evaluations(_part)
    print("\n[gwverif contracts] evaluations during the repository's tests:", ev)
    for v in _part.violations:
        print("[gwverif contracts] VIOLATED:", v["key"], "::", v["msg"])
    if _part.violations:
        session.exitstatus = 1
