"""Fidelity guard for the harness (DESIGN.md 2.2): the same small scenarios are run (a) on the stock asyncio selector loop
over REAL loopback UDP/TCP sockets with small wall-clock timeouts and (b) on the virtual-time loop over socketpairs; only the
outcome and the number of transmissions are compared.  A disagreement means the HARNESS misrepresents asyncio/the OS - it is
reported as such (never as a violation of goodwe).  `./vcheck fidelity` writes evidence/fidelity.json.
"""
from __future__ import annotations

import asyncio
import json
import os
import socket
import time

from . import engine, env
from . import refcodec as rc

T = 0.25
SCRIPTS = {
    "udp": [["now"], ["drop", "now"], ["drop", "drop"], ["garbage", "now"], ["badsum", "now"], [["exc", 2]], ["drop", ["exc", 3]],
            [["frag2", 5, 0.05]], ["frag1", "now"], ["dup"], ["short", "now"]],
    "tcp": [["now"], ["drop", "now"], ["drop", "drop"], [["exc", 2]], [["frag2", 9, 0.05]], ["close", "now"], ["garbage"], ["frag1", "now"]],
}


def answer(framing, frame, n):
    req = rc.parse_rtu_request(frame) if framing == "rtu" else rc.parse_tcp_request(frame)
    pl = (req["reg"].to_bytes(2, "big") + n.to_bytes(2, "big"))[:2 * req["count"]]
    return req, (rc.rtu_response(req, pl) if framing == "rtu" else rc.tcp_response(req, pl))


async def real_run(transport, script, R):
    """Stock loop, real sockets on 127.0.0.1."""
    g = env.goodwe()
    loop = asyncio.get_running_loop()
    state = {"n": 0}
    framing = "rtu" if transport == "udp" else "tcp"

    def act(send, close, frame):
        state["n"] += 1
        n = state["n"]
        sym = script[n - 1] if n <= len(script) else "drop"
        name, args = (sym, ()) if isinstance(sym, str) else (sym[0], tuple(sym[1:]))
        req, v = answer(framing, frame, n)
        if name == "drop":
            return
        if name == "now":
            return send(v)
        if name == "garbage":
            return send(bytes(range(1, 15)))
        if name == "short":
            return send(b"\x01\x02\x03")
        if name == "badsum":
            return send(v[:-1] + bytes([v[-1] ^ 0x55]))
        if name == "exc":
            return send(rc.rtu_exception(req, args[0]) if framing == "rtu" else rc.tcp_exception(req, args[0]))
        if name == "frag2":
            send(v[:args[0]])
            return loop.call_later(args[1], send, v[args[0]:])
        if name == "frag1":
            return send(v[:5 if framing == "rtu" else 9])
        if name == "dup":
            send(v)
            return send(v)
        if name == "close":
            return close()

    if transport == "udp":
        class Srv(asyncio.DatagramProtocol):
            def connection_made(self, tr):
                self.tr = tr

            def datagram_received(self, data, addr):
                act(lambda b: self.tr.sendto(b, addr), lambda: None, data)
        tr, _ = await loop.create_datagram_endpoint(Srv, local_addr=("127.0.0.1", 0))
        port = tr.get_extra_info("sockname")[1]
        proto = g.protocol.UdpInverterProtocol("127.0.0.1", port, 0xF7, T, R)
        cmd = g.protocol.ModbusRtuReadCommand(0xF7, 100, 2)
        closer = tr.close
    else:
        class Conn(asyncio.Protocol):
            def connection_made(self, tr):
                self.tr = tr

            def data_received(self, data):
                act(self.tr.write, self.tr.close, data)
        server = await loop.create_server(Conn, "127.0.0.1", 0)
        port = server.sockets[0].getsockname()[1]
        proto = g.protocol.TcpInverterProtocol("127.0.0.1", port, 0xF7, T, R)
        cmd = g.protocol.ModbusTcpReadCommand(0xF7, 100, 2)
        closer = server.close
    try:
        try:
            await asyncio.wait_for(cmd.execute(proto), timeout=20)
            out = "ok"
        except g.exceptions.MaxRetriesException:
            out = "RequestFailedException"        # (Inverter._read_from_socket maps it; here the protocol layer is driven directly)
        except Exception as e:      # noqa
            out = type(e).__name__
    finally:
        await proto.close()
        closer()
    await asyncio.sleep(0.05)
    return out, state["n"]


def virtual_run(transport, script, R):
    framing = "rtu" if transport == "udp" else "tcp"
    sc = {"transport": transport, "framing": framing, "keep_alive": False, "T": T, "R": R,
          "script": [s if isinstance(s, str) else list(s) for s in script], "after": "drop",
          "tasks": [{"start": 0.0, "steps": [["read", 100, 2]]}]}
    run = engine.run_scenario(sc, quiesce=False)
    return run.calls[0]["outcome"], len([e for e in run.events if e[1] == "tx"])


def main():
    env.ensure_deps()
    env.goodwe()
    import logging
    logging.disable(logging.CRITICAL)
    rows, agree, t0 = [], 0, time.time()
    try:
        s = socket.socket(socket.AF_INET, socket.SOCK_DGRAM)
        s.bind(("127.0.0.1", 0))
        s.close()
        lo = True
    except OSError:
        lo = False
    if lo:
        for transport, scripts in SCRIPTS.items():
            for script in scripts:
                for R in (1, 2):
                    v = virtual_run(transport, script, R)
                    r = asyncio.run(real_run(transport, script, R))
                    ok = tuple(v) == tuple(r)
                    agree += ok
                    rows.append({"transport": transport, "script": script, "retries": R, "virtual": list(v), "real": list(r), "agree": ok})
                    if not ok:
                        print(f"FIDELITY-MISMATCH {transport} {script} R={R}: virtual loop {v} vs real sockets {r}")
    res = {"loopback_available": lo, "scenarios": len(rows), "agree": agree, "wall_s": round(time.time() - t0, 1), "rows": rows,
           "note": "outcome and number of transmissions only; a mismatch is a harness problem (inconclusive), never a goodwe violation"}
    os.makedirs(os.path.join(env.VERIF, "evidence"), exist_ok=True)
    json.dump(res, open(os.path.join(env.VERIF, "evidence", "fidelity.json"), "w"), indent=1)
    print(f"fidelity: loopback={lo} scenarios={len(rows)} agree={agree}")
    return 0 if agree == len(rows) else 2
