"""Model configuration space (C14/C15/C16/C18) and a driver that runs the public API of one configuration against a
simulated inverter while the read-log hook and the wire log are recording."""
from __future__ import annotations

import itertools
import random

from . import engine, env, models
from . import refsensors as rs

ET_REFUSABLE = ["battery", "battery2", "meter_ext", "meter_ext2", "mppt", "eco_v2", "peak_shaving"]
POWER_CLASSES = [20000, 5000, 30000]       # (big, small, big: objects of one series on both sides of the 15 kW / 25 kW limits, both orders)


# The documented model tables (serial-number tags per platform / capability), copied here so that the expectations do NOT follow
# an edit of goodwe/model.py: what a tag means is part of the oracle.
DOC_205 = ("ETU", "ETL", "ETR", "BHN", "EHU", "BHU", "EHR", "BTU")
DOC_745_LV = ("ESN", "EBN", "EMN", "SPN", "ERN", "ESC", "HLB", "HMB", "HBB", "EOA")
DOC_745_HV = ("ETT", "HTA", "HUB", "AEB", "SPB", "CUB", "EUB", "HEB", "ERB", "BTT", "ETF", "ARB", "URB", "EBR")
DOC_753 = ("AES", "HHI", "ABP", "EHB", "HSB", "HUA", "CUA")
DOC_ET = DOC_205 + DOC_745_LV + DOC_745_HV + DOC_753 + ("ETC", "BTC", "BTN")
DOC_ES = ("ESU", "EMU", "ESA", "BPS", "BPU", "EMJ", "IJL")
DOC_DT = ("DTU", "DTS", "MSU", "MST", "MSC", "DSN", "DTN", "DST", "NSU", "SSN", "SST", "SSX", "SSY", "PSB", "PSC")
DOC_SINGLE = ("DSN", "DST", "NSU", "SSN", "SST", "SSX", "SSY", "MSU", "MST", "PSB", "PSC", "MSC", "EHU", "EHR", "HSB",
              "ESN", "EMN", "ERN", "EBN", "HLB", "HMB", "HBB", "SPN")
DOC_MPPT3 = ("MSU", "MST", "PSC", "MSC", "25KET", "29K9ET")
DOC_MPPT4 = ("HSB",)
DOC_BAT2 = ("25KET", "29K9ET")


def tag_lists(g):
    return {"ET": list(DOC_ET) + ["25KET", "29K9ET"], "DT": list(DOC_DT), "ES": list(DOC_ES),
            "single": set(DOC_SINGLE), "mppt3": set(DOC_MPPT3), "mppt4": set(DOC_MPPT4),
            "bat2": set(DOC_BAT2), "p745": set(DOC_745_LV) | set(DOC_745_HV)}


def serial_for(tag):
    if tag in ("25KET", "29K9ET"):
        return ("90" + tag + "U000W0000")[:16].ljust(16, "0")      # e.g. 9025KETU000W0000 (contains 25KET and ETU)
    return models.serial_with(tag)


def predicates(tl, serial):
    has = lambda names: any(n in serial for n in names)     # noqa
    return {"single": has(tl["single"]), "mppt3": has(tl["mppt3"]), "mppt4": has(tl["mppt4"]), "bat2": has(tl["bat2"]),
            "p745": has(tl["p745"])}


def et_configs(g, tier):
    tl = tag_lists(g)
    tags = tl["ET"]
    if tier == "quick":
        seen, reps = set(), []
        for t in tags:
            key = tuple(sorted(predicates(tl, serial_for(t)).items()))
            if key not in seen:
                seen.add(key)
                reps.append(t)
        tags = reps
    if tier == "quick":
        # every tag once in its plainest configuration (what a tag means - platform, phases, batteries - is table data)
        for tag in tl["ET"]:
            if tag not in tags:
                yield {"family": "ET", "tag": tag, "rated": 5000, "refused": [], "battery": 1}
    # rated powers at the edges: the documented classes +-1 and every round thousand (+-1) that occurs as a constant in the source under test
    # (a threshold that is introduced or moved shows up in this list by itself), plus large units
    from . import env as _env
    edges = sorted({14999, 15000, 24999, 25000, 50000, 65535} | {v for v in _env.harvest_ints() if 3000 <= v <= 65535 and v % 1000 in (0, 1, 999)})
    for tag in tags:
        for rated in edges:
            yield {"family": "ET", "tag": tag, "rated": rated, "refused": [], "battery": 1}
    for tag in tags:
        for rated in POWER_CLASSES:
            for k in range(len(ET_REFUSABLE) + 1):
                for refused in itertools.combinations(ET_REFUSABLE, k):
                    for battery in (1, 0):
                        yield {"family": "ET", "tag": tag, "rated": rated, "refused": list(refused), "battery": battery}


def dt_configs(g, tier):
    for tag in tag_lists(g)["DT"]:
        for refused in ([], ["meter"], ["meter_version"], ["meter", "meter_version"]):
            yield {"family": "DT", "tag": tag, "rated": 0, "refused": refused, "battery": 0}


def es_configs(g, tier):
    for tag in tag_lists(g)["ES"]:
        for fw in ("02525", "1414E", "2225F", "10107"):
            yield {"family": "ES", "tag": tag, "rated": 0, "refused": [], "battery": 1, "fw": fw}


def firmware_variants():
    """(DSP1, DSP2, ARM) version triples: the defaults of the simulators plus every small integer constant of the source under test (with
    neighbours) as ARM / DSP version - a capability rule keyed on a firmware version can only change at such a constant"""
    from . import env
    vs = [v for v in env.harvest_ints() if 0 <= v <= 64]
    return [None] + [(v, v, v) for v in vs] + [(4, 4, v) for v in vs[::3]] + [(v, 0, 19) for v in vs[::5]]


def apply_firmware(sim, fam, fw):
    if fw is None:
        return
    base = {"ET": 35016, "DT": 30034}.get(fam)
    if base is None:
        return
    sim.regs[base], sim.regs[base + 1] = fw[0], fw[1]
    sim.regs[base + (3 if fam == "ET" else 2)] = fw[2]


def make_sim(cfg, rnd=None, style="mixed"):
    fam = cfg["family"]
    if fam == "ET":
        sim = models.et_sim(serial=serial_for(cfg["tag"]), rated=cfg["rated"], refused_blocks=cfg["refused"],
                            battery_mode=cfg["battery"], rnd=rnd, style=style)
        apply_firmware(sim, fam, cfg.get("fw_versions"))
        for reg_, cnt_ in cfg.get("refuse_exact", ()):      # firmware that refuses exactly this (longer) read but serves shorter ones there
            sim.exc_map[(3, reg_, cnt_)] = 2
        return sim
    if fam == "DT":
        sim = models.dt_sim(serial=serial_for(cfg["tag"]), refused_blocks=cfg["refused"], rnd=rnd, style=style)
        apply_firmware(sim, fam, cfg.get("fw_versions"))
        return sim
    return models.es_sim(serial=serial_for(cfg["tag"]), fw=cfg.get("fw", "02525").encode(), rnd=rnd, style=style)


def expected_presence(g, cfg):
    """Representative ids that must be present / absent in read_runtime_data() once the fallbacks have settled."""
    if cfg["family"] != "ET":
        if cfg["family"] == "DT":
            return {"meter_active_power": "meter" not in cfg["refused"]}
        return {}
    tl = tag_lists(g)
    p = predicates(tl, serial_for(cfg["tag"]))
    big = p["p745"] or cfg["rated"] >= 15000
    ref = set(cfg["refused"])
    return {
        "battery_soc": bool(cfg["battery"]) and "battery" not in ref,
        "battery2_soc": (p["bat2"] or cfg["rated"] >= 25000) and "battery2" not in ref,
        "pmppt1": big and "mppt" not in ref,
        "meter_voltage1": big and "meter_ext" not in ref,
        "meter_e_total_exp1": big and "meter_ext" not in ref and "meter_ext2" not in ref,
        "vpv1": True, "commode": True,
    }


def run_config(cfg, ncalls=3, port=8899, rnd=None, readlog=None, extra=None, mbap_len_bug=None, retries=0, keep_alive=None, exc_delay=0.0):
    """read_device_info() then `ncalls` x read_runtime_data(); returns dict with per-call outcomes, key sets, sensors() ids,
    short reads seen by the read-log hook, the simulator (wire log)."""
    g = env.goodwe()
    sim = make_sim(cfg, rnd=rnd)
    sim.mbap_len_bug = mbap_len_bug
    sim.exc_delay = exc_delay
    res = {"calls": [], "sim": sim, "short_reads": []}

    async def flow(loop):
        inv = models.family_cls(g, cfg["family"])("inv0", port, 0, 1, retries)
        if keep_alive is not None:
            inv.set_keep_alive(keep_alive)
        res["inv"] = inv
        await inv.read_device_info()
        res["ids_after_info"] = {s.id_ for s in inv.sensors()}      # (sensor discovery before the first poll, as integrations do)
        res["poll_windows"] = []
        for i in range(ncalls):
            if readlog:
                readlog.start()
            n_log0 = len(sim.log)
            try:
                data = await inv.read_runtime_data()
                out = ("ok", set(data), {s.id_ for s in inv.sensors()}, data)
            except g.exceptions.RequestRejectedException as e:
                out = ("rejected", e.message, None, None)
            except Exception as e:      # noqa
                out = (type(e).__name__, str(e)[:100], None, None)
            if readlog:
                for entry in readlog.stop():
                    if entry[3] < entry[2]:
                        res["short_reads"].append((i,) + entry)
            res["calls"].append(out)
            res["poll_windows"].append((out[0] == "ok", [(r[2]["reg"], r[2]["count"]) for r in sim.log[n_log0:] if r[2]["kind"] == "read"]))
        res["sensors_after_polls"] = tuple(inv.sensors())
        if extra:
            await extra(inv, sim, loop, res)

    run = engine.run_custom({("inv0", port): sim}, flow, vtime_cap=3000, tx_cap=3000)
    res["run"] = run
    return res
