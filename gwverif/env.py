"""Locating the code under test, third-party deps (icontract) and seeds.

GOODWE_VERIF=1 (the MANIFEST.hooks guard) switches the harness's own instrumentation on;
vcheck sets it for every workload process.  GOODWE_VERIF_REPO overrides the tree under test
and is used ONLY by `vcheck selftest` / seeded-mutant runs, never by MANIFEST commands.
"""
from __future__ import annotations

import fcntl
import os
import subprocess
import sys

VERIF = os.path.dirname(os.path.dirname(os.path.abspath(__file__)))
REPO = os.environ.get("GOODWE_VERIF_REPO", "/repo")
DEPS = os.path.join(VERIF, ".deps")
WORK = os.path.join(VERIF, ".work")
WHEELS = "/opt/veriftools/wheels"


def seed() -> int:
    try:
        return int(os.environ.get("VERIF_SEED", "0"))
    except ValueError:
        return 0


def ensure_deps() -> None:
    """Install icontract next to the repo's interpreter (offline wheelhouse), once, under a file lock."""
    marker = os.path.join(DEPS, "icontract", "__init__.py")
    if not os.path.exists(marker):
        os.makedirs(DEPS, exist_ok=True)
        with open(os.path.join(VERIF, ".deps.lock"), "w") as lk:
            fcntl.flock(lk, fcntl.LOCK_EX)
            if not os.path.exists(marker):
                subprocess.run(
                    [sys.executable, "-m", "pip", "install", "-q", "--no-index", "--find-links", WHEELS,
                     "--target", DEPS, "icontract"],
                    check=True, stdout=subprocess.DEVNULL, stderr=subprocess.PIPE)
    if DEPS not in sys.path:
        sys.path.insert(0, DEPS)


_goodwe = None


def goodwe():
    """Import goodwe from the tree under test (never an installed copy) and return the package."""
    global _goodwe
    if _goodwe is None:
        if REPO not in sys.path:
            sys.path.insert(0, REPO)
        import goodwe as g  # noqa
        assert os.path.realpath(g.__file__).startswith(os.path.realpath(REPO) + os.sep), \
            f"goodwe imported from {g.__file__}, expected under {REPO}"
        _goodwe = g
    return _goodwe


def repo_state() -> dict:
    def git(*a):
        try:
            return subprocess.run(["git", "-C", REPO, *a], capture_output=True, text=True, timeout=20).stdout.strip()
        except Exception:
            return ""
    return {"repo": REPO, "head": git("rev-parse", "HEAD"), "dirty": bool(git("status", "--porcelain", "--", "goodwe"))}
