"""Locating the code under test, third-party deps (icontract) and seeds.

GOODWE_VERIF=1 (the MANIFEST.hooks guard) switches the harness's own instrumentation on;
vcheck sets it for every workload process.  GOODWE_VERIF_REPO overrides the tree under test
and is used ONLY by `vcheck selftest` / seeded-mutant runs, never by MANIFEST commands.
"""
from __future__ import annotations

import fcntl
import os
import subprocess
import sys

VERIF = os.path.dirname(os.path.dirname(os.path.abspath(__file__)))
REPO = os.environ.get("GOODWE_VERIF_REPO", "/repo")
DEPS = os.path.join(VERIF, ".deps")
WORK = os.path.join(VERIF, ".work")
WHEELS = "/opt/veriftools/wheels"


def seed() -> int:
    try:
        return int(os.environ.get("VERIF_SEED", "0"))
    except ValueError:
        return 0


def ensure_deps() -> None:
    """Install icontract next to the repo's interpreter (offline wheelhouse), once, under a file lock."""
    marker = os.path.join(DEPS, "icontract", "__init__.py")
    if not os.path.exists(marker):
        os.makedirs(DEPS, exist_ok=True)
        with open(os.path.join(VERIF, ".deps.lock"), "w") as lk:
            fcntl.flock(lk, fcntl.LOCK_EX)
            if not os.path.exists(marker):
                subprocess.run(
                    [sys.executable, "-m", "pip", "install", "-q", "--no-index", "--find-links", WHEELS,
                     "--target", DEPS, "icontract"],
                    check=True, stdout=subprocess.DEVNULL, stderr=subprocess.PIPE)
    if DEPS not in sys.path:
        sys.path.insert(0, DEPS)


_goodwe = None


def goodwe():
    """Import goodwe from the tree under test (never an installed copy) and return the package."""
    global _goodwe
    if _goodwe is None:
        if REPO not in sys.path:
            sys.path.insert(0, REPO)
        import goodwe as g  # noqa
        assert os.path.realpath(g.__file__).startswith(os.path.realpath(REPO) + os.sep), \
            f"goodwe imported from {g.__file__}, expected under {REPO}"
        _goodwe = g
    return _goodwe


def repo_state() -> dict:
    def git(*a):
        try:
            return subprocess.run(["git", "-C", REPO, *a], capture_output=True, text=True, timeout=20).stdout.strip()
        except Exception:
            return ""
    return {"repo": REPO, "head": git("rev-parse", "HEAD"), "dirty": bool(git("status", "--porcelain", "--", "goodwe"))}


_HARVEST = []


def harvest_ints():
    """Integer literals of the tree under test (goodwe/*.py, parsed with ast; negative literals included), each with its neighbours
    v-1 / v+1 and its negation: the 'dictionary' for boundary-seeking value classes - a comparison against a constant can only change its
    outcome at that constant.  Read from the CURRENT tree at check time, so a constant introduced by a change is tried as well."""
    if _HARVEST:
        return _HARVEST
    import ast, glob
    vals = set()
    for f in sorted(glob.glob(os.path.join(REPO, "goodwe", "*.py"))):
        try:
            tree = ast.parse(open(f, encoding="utf-8").read())
        except (SyntaxError, OSError):
            continue
        for node in ast.walk(tree):
            v = None
            if isinstance(node, ast.Constant) and isinstance(node.value, int) and not isinstance(node.value, bool):
                v = node.value
            elif isinstance(node, ast.Constant) and isinstance(node.value, float) and node.value == int(node.value) and abs(node.value) < 1e9:
                v = int(node.value)
            if v is not None and abs(v) < 2 ** 31:
                for w in (v - 1, v, v + 1):
                    vals.add(w)
                    vals.add(-w)
    _HARVEST.extend(sorted(vals))
    return _HARVEST
