"""Independent reference codecs for the three framings (never imports goodwe).

Written from the Modbus specification and the AA55 framing description in the property texts:
bitwise CRC-16/MODBUS, own MBAP / RTU / AA55 builders and parsers, and the *acceptors* that state what
properties C01 (only valid frames accepted) and C02 (every conforming frame accepted) demand.
"""
from __future__ import annotations

READ, WRITE, WRITE_MULTI = 3, 6, 16

MODBUS_REASONS = {
    1: "ILLEGAL FUNCTION", 2: "ILLEGAL DATA ADDRESS", 3: "ILLEGAL DATA VALUE", 4: "SLAVE DEVICE FAILURE",
    5: "ACKNOWLEDGE", 6: "SLAVE DEVICE BUSY", 7: "NEGATIVE ACKNOWLEDGEMENT", 8: "MEMORY PARITY ERROR",
    10: "GATEWAY PATH UNAVAILABLE", 11: "GATEWAY TARGET DEVICE FAILED TO RESPOND",
}


def reason(code: int) -> str:
    return MODBUS_REASONS.get(code, "UNKNOWN")


def crc16(data: bytes) -> int:
    crc = 0xFFFF
    for x in data:
        crc ^= x
        for _ in range(8):
            crc = (crc >> 1) ^ 0xA001 if crc & 1 else crc >> 1
    return crc


def _crc_le(data: bytes) -> bytes:
    c = crc16(data)
    return bytes([c & 0xFF, c >> 8])


def s16(v: int) -> int:
    v &= 0xFFFF
    return v - 0x10000 if v & 0x8000 else v


# ----------------------------------------------------------------------------------------------------
# Commands are described independently of the library as dicts:
#   {"framing": "rtu"|"tcp"|"aa55", "kind": "read"|"write"|"multi", "comm": int, "reg": int,
#    "count": int (read / multi: registers), "value": int (write, signed), "data": bytes (multi)}
#   AA55 generic: {"framing": "aa55", "kind": "raw", "cmd": "0102", "rtype": "0182", "payload": bytes}
# ----------------------------------------------------------------------------------------------------

def fc_of(cmd: dict) -> int:
    return {"read": READ, "write": WRITE, "multi": WRITE_MULTI}[cmd["kind"]]


# -- request builders (reference encodings of what the library should transmit) -----------------------
def rtu_request(cmd: dict) -> bytes:
    k = cmd["kind"]
    if k == "read":
        body = bytes([cmd["comm"], READ]) + cmd["reg"].to_bytes(2, "big") + cmd["count"].to_bytes(2, "big")
    elif k == "write":
        body = bytes([cmd["comm"], WRITE]) + cmd["reg"].to_bytes(2, "big") + (cmd["value"] & 0xFFFF).to_bytes(2, "big")
    else:
        d = cmd["data"]
        body = bytes([cmd["comm"], WRITE_MULTI]) + cmd["reg"].to_bytes(2, "big") + (len(d) // 2).to_bytes(2, "big") \
            + bytes([len(d)]) + d
    return body + _crc_le(body)


def tcp_request_pdu(cmd: dict) -> bytes:
    return rtu_request(cmd)[:-2]


def aa55_sum(data: bytes) -> bytes:
    return (sum(data) & 0xFFFF).to_bytes(2, "big")


def aa55_request(cmdhex: str, payload: bytes) -> bytes:
    fr = bytes.fromhex("AA55C07F") + bytes.fromhex(cmdhex) + bytes([len(payload)]) + payload
    return fr + aa55_sum(fr)


# -- request parsers (what an independent inverter would understand) ----------------------------------
class BadFrame(Exception):
    pass


def parse_rtu_request(d: bytes) -> dict:
    if len(d) < 8:
        raise BadFrame(f"rtu request too short ({len(d)})")
    if crc16(d[:-2]) != d[-2] | (d[-1] << 8):
        raise BadFrame("rtu request CRC mismatch (expected lo,hi order)")
    comm, fc, reg = d[0], d[1], int.from_bytes(d[2:4], "big")
    if fc == READ:
        if len(d) != 8:
            raise BadFrame("rtu read request length != 8")
        return {"framing": "rtu", "kind": "read", "comm": comm, "reg": reg, "count": int.from_bytes(d[4:6], "big")}
    if fc == WRITE:
        if len(d) != 8:
            raise BadFrame("rtu write request length != 8")
        return {"framing": "rtu", "kind": "write", "comm": comm, "reg": reg, "value": s16(int.from_bytes(d[4:6], "big"))}
    if fc == WRITE_MULTI:
        n, bc = int.from_bytes(d[4:6], "big"), d[6]
        data = d[7:-2]
        if bc != len(data):
            raise BadFrame(f"multi write byte count {bc} != payload {len(data)}")
        if n * 2 != len(data):
            raise BadFrame(f"multi write register count {n} != bytes/2 ({len(data)}/2)")
        return {"framing": "rtu", "kind": "multi", "comm": comm, "reg": reg, "count": n, "data": bytes(data)}
    raise BadFrame(f"unexpected function code {fc}")


def parse_tcp_request(d: bytes) -> dict:
    if len(d) < 12:
        raise BadFrame(f"tcp request too short ({len(d)})")
    txid, proto, ln = int.from_bytes(d[0:2], "big"), int.from_bytes(d[2:4], "big"), int.from_bytes(d[4:6], "big")
    if proto != 0:
        raise BadFrame(f"protocol id {proto} != 0")
    if ln != len(d) - 6:
        raise BadFrame(f"MBAP length {ln} != bytes that follow {len(d) - 6}")
    if txid == 0:
        raise BadFrame("transaction id 0")
    pdu = d[6:]
    comm, fc, reg = pdu[0], pdu[1], int.from_bytes(pdu[2:4], "big")
    out = {"framing": "tcp", "txid": txid, "comm": comm, "reg": reg}
    if fc == READ:
        if len(pdu) != 6:
            raise BadFrame("tcp read pdu length != 6")
        out.update(kind="read", count=int.from_bytes(pdu[4:6], "big"))
    elif fc == WRITE:
        if len(pdu) != 6:
            raise BadFrame("tcp write pdu length != 6")
        out.update(kind="write", value=s16(int.from_bytes(pdu[4:6], "big")))
    elif fc == WRITE_MULTI:
        n, bc = int.from_bytes(pdu[4:6], "big"), pdu[6]
        data = pdu[7:]
        if bc != len(data):
            raise BadFrame(f"multi write byte count {bc} != payload {len(data)}")
        if n * 2 != len(data):
            raise BadFrame(f"multi write register count {n} != bytes/2")
        out.update(kind="multi", count=n, data=bytes(data))
    else:
        raise BadFrame(f"unexpected function code {fc}")
    return out


def parse_aa55_request(d: bytes) -> dict:
    if len(d) < 9:
        raise BadFrame("aa55 request too short")
    if d[0:4] != bytes.fromhex("AA55C07F"):
        raise BadFrame("aa55 header is not AA55C07F")
    if d[6] != len(d) - 9:
        raise BadFrame(f"aa55 length byte {d[6]} != payload length {len(d) - 9}")
    if aa55_sum(d[:-2]) != d[-2:]:
        raise BadFrame("aa55 checksum mismatch")
    return {"framing": "aa55", "cmd": d[4:6].hex(), "payload": bytes(d[7:-2])}


def split_tcp_stream(buf: bytearray):
    """Yield complete MBAP frames from a stream buffer (consumes them)."""
    while len(buf) >= 6:
        if buf[0:4] == b"\xaa\x55\xc0\x7f" and len(buf) >= 7:      # an AA55 command written to the stream (ES family on port 502);
            # (an MBAP frame whose transaction id happens to be 0xAA55 has protocol id 00 00 in bytes 2..3, never C0 7F)
            ln = 3 + buf[6]                                 # bytes after the first 6: length byte, payload, 2 checksum bytes
            if len(buf) < 6 + ln:
                return
            fr = bytes(buf[:6 + ln])
            del buf[:6 + ln]
            yield fr
            continue
        ln = int.from_bytes(buf[4:6], "big")
        if len(buf) < 6 + ln:
            return
        fr = bytes(buf[:6 + ln])
        del buf[:6 + ln]
        yield fr


# -- response builders -----------------------------------------------------------------------------
def rtu_response(req: dict, payload: bytes = None) -> bytes:
    """Conforming answer of an inverter speaking Modbus RTU inside the AA55 envelope."""
    k = req["kind"]
    if k == "read":
        assert payload is not None and len(payload) == 2 * req["count"]
        body = bytes([req["comm"], READ, len(payload)]) + payload
    elif k == "write":
        body = bytes([req["comm"], WRITE]) + req["reg"].to_bytes(2, "big") + (req["value"] & 0xFFFF).to_bytes(2, "big")
    else:
        body = bytes([req["comm"], WRITE_MULTI]) + req["reg"].to_bytes(2, "big") + req["count"].to_bytes(2, "big")
    return b"\xaa\x55" + body + _crc_le(body)


def rtu_exception(req: dict, code: int) -> bytes:
    body = bytes([req["comm"], fc_of(req) | 0x80, code])
    return b"\xaa\x55" + body + _crc_le(body)


def tcp_response(req: dict, payload: bytes = None, txid: int = None) -> bytes:
    k = req["kind"]
    if k == "read":
        assert payload is not None and len(payload) == 2 * req["count"]
        pdu = bytes([req["comm"], READ, len(payload)]) + payload
    elif k == "write":
        pdu = bytes([req["comm"], WRITE]) + req["reg"].to_bytes(2, "big") + (req["value"] & 0xFFFF).to_bytes(2, "big")
    else:
        pdu = bytes([req["comm"], WRITE_MULTI]) + req["reg"].to_bytes(2, "big") + req["count"].to_bytes(2, "big")
    tx = req.get("txid", 1) if txid is None else txid
    return tx.to_bytes(2, "big") + b"\0\0" + len(pdu).to_bytes(2, "big") + pdu


def tcp_exception(req: dict, code: int, txid: int = None) -> bytes:
    pdu = bytes([req["comm"], fc_of(req) | 0x80, code])
    tx = req.get("txid", 1) if txid is None else txid
    return tx.to_bytes(2, "big") + b"\0\0" + len(pdu).to_bytes(2, "big") + pdu


def aa55_response(rtype: str, payload: bytes, addr: bytes = b"\x7f\xc0") -> bytes:
    """AA55 frame: header AA 55, source / destination address bytes (7F C0 from a stock inverter), response type, length, payload, sum"""
    fr = bytes.fromhex("AA55") + bytes(addr) + bytes.fromhex(rtype) + bytes([len(payload)]) + payload
    return fr + aa55_sum(fr)


# -- acceptors: what C01 allows a validator to ACCEPT ------------------------------------------------
def c01_accept_ok(cmd: dict, data: bytes):
    """Return None when `data` may legitimately be accepted as the answer to `cmd`,
    else a short reason string (the property's list of conditions, nothing more)."""
    f = cmd["framing"]
    if f == "rtu":
        if len(data) < 5:
            return "shorter than an RTU header"
        fc = data[3]
        if fc != fc_of(cmd):
            return f"function code {fc} != {fc_of(cmd)}"
        if fc == READ:
            if data[4] != 2 * cmd["count"]:
                return f"byte count {data[4]} != 2*count {2 * cmd['count']}"
            n = data[4] + 7
            if len(data) < n:
                return f"shorter ({len(data)}) than the header announces ({n})"
            if crc16(data[2:n - 2]) != data[n - 2] | (data[n - 1] << 8):
                return "CRC-16 mismatch"
            return None
        if len(data) < 10:
            return "write answer shorter than 10 bytes"
        if int.from_bytes(data[4:6], "big") != cmd["reg"]:
            return "echoed register differs"
        want = cmd["value"] if cmd["kind"] == "write" else cmd["count"]
        if s16(int.from_bytes(data[6:8], "big")) != s16(want):
            return "echoed value/count differs"
        if crc16(data[2:8]) != data[8] | (data[9] << 8):
            return "CRC-16 mismatch"
        return None
    if f == "tcp":
        if len(data) < 9:
            return "shorter than an MBAP header + 3"
        fc = data[7]
        if fc != fc_of(cmd):
            return f"function code {fc} != {fc_of(cmd)}"
        if fc == READ:
            if data[8] != 2 * cmd["count"]:
                return f"byte count {data[8]} != 2*count"
            if len(data) < data[8] + 9:
                return "shorter than the header announces"
            return None
        if len(data) < 12:
            return "write answer shorter than 12 bytes"
        if int.from_bytes(data[8:10], "big") != cmd["reg"]:
            return "echoed register differs"
        want = cmd["value"] if cmd["kind"] == "write" else cmd["count"]
        if s16(int.from_bytes(data[10:12], "big")) != s16(want):
            return "echoed value/count differs"
        return None
    if f == "aa55":
        if len(data) < 9:
            return "shorter than an AA55 frame"
        if len(data) != data[6] + 9:
            return f"length {len(data)} != length byte + 9 ({data[6] + 9})"
        rt = cmd.get("rtype")
        if rt and data[4:6] != bytes.fromhex(rt):
            return f"response type {data[4:6].hex()} != {rt}"
        if aa55_sum(data[:-2]) != data[-2:]:
            return "additive checksum mismatch"
        return None
    raise ValueError(f)


def conforming_response(cmd: dict, payload: bytes = None, trailing: bytes = b"") -> bytes:
    """A protocol-conforming answer to `cmd` (C02's antecedent)."""
    f = cmd["framing"]
    if f == "rtu":
        return rtu_response(cmd, payload) + trailing
    if f == "tcp":
        return tcp_response(cmd, payload)
    return aa55_response(cmd["rtype"], payload if payload is not None else b"")


def expected_payload(cmd: dict, frame: bytes) -> bytes:
    """What response_data() must return for an accepted conforming frame."""
    f = cmd["framing"]
    if f == "rtu":
        return frame[5:-2]
    if f == "tcp":
        return frame[9:]
    return frame[7:-2]
