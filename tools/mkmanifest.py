#!/usr/bin/env python3
"""Regenerate MANIFEST.json from the check modules that exist (tools/mkmanifest.py)."""
import json, os, re, sys
HERE = os.path.dirname(os.path.dirname(os.path.abspath(__file__)))
props = [json.loads(l) for l in open(os.path.join(HERE, "properties.jsonl"))]
TEXT = json.load(open(os.path.join(HERE, "tools", "manifest_text.json")))
checks, na = [], []
for p in props:
    pid = p["id"]
    mod = os.path.join(HERE, "gwverif", "checks", pid.lower() + ".py")
    if os.path.exists(mod) and pid in TEXT:
        src = open(mod).read()
        level = re.search(r'^LEVEL = "(\w+)"', src, re.M).group(1)
        t = TEXT[pid]
        checks.append({
            "property_id": pid,
            "quick_cmd": f"./vcheck run {pid} --tier quick",
            "thorough_cmd": f"./vcheck run {pid} --tier thorough",
            "evidence_file": f"evidence/{pid}.json",
            "replay_cmd_template": "./vcheck replay {path}",
            "engine": t.get("engine", "vloop-scenario-engine"),
            "level_claimed": {"category": level, "text": t["text"], "design_ref": f"DESIGN.md section 3, {pid}"},
            "level_note": t["note"],
            "technique": t["technique"],
        })
    else:
        na.append({"property_id": pid, "reason": "check not built yet in this session (work in progress; the property is decidable by runtime monitoring, see DESIGN.md section 3)"})
man = {
    "version": 1,
    "setup_cmd": "/venv/bin/python -m pip install -q --no-index --find-links /opt/veriftools/wheels --target .deps icontract",
    "hooks": {
        "guard": "GOODWE_VERIF",
        "enable": "no source hooks in /repo: with GOODWE_VERIF=1 (set by ./vcheck) the harness attaches its monitors from outside (module/class patching, event-loop and socket subclasses, icontract wrappers) to goodwe imported from /repo's working tree in a fresh interpreter per shard",
        "baseline_off_cmd": "cd /repo && /venv/bin/python -m pytest -ra -q -p no:cacheprovider --timeout=900 --continue-on-collection-errors",
        "source_commits": [],
        "add_only": True,
    },
    "engines": [
        {"name": "vloop-scenario-engine", "path": "gwverif/engine.py", "serves_properties": ["C03", "C04", "C05", "C06", "C07", "C08", "C09", "C10", "C20"],
         "kind_free_text": "virtual-time asyncio loop over real asyncio transports on AF_UNIX socketpairs; MonSocket wire tap / fault injector; scripted peers; offline checkers over the recorded wire + API history"},
        {"name": "simulated-inverters", "path": "gwverif/sims.py", "serves_properties": ["C05", "C09", "C11", "C14", "C15", "C16", "C17", "C18", "C19", "C20"],
         "kind_free_text": "executable reference models (register-file Modbus inverter over RTU/UDP and Modbus/TCP, AA55 ES inverter) driven through the public API"},
        {"name": "contracts-and-reference-codecs", "path": "gwverif/refcodec.py", "serves_properties": ["C01", "C02", "C03", "C11", "C12", "C13"],
         "kind_free_text": "icontract pre/postconditions and wrappers on the real validators/encoders/decoders compared with independent reference codecs and decoders"},
    ],
    "checks": checks,
    "not_applicable": na,
    "notes": "Technique family: runtime monitoring. Every check runs goodwe from /repo's working tree in fresh interpreters (one per shard, up to 16 in parallel) and decides from what its monitors observed; exit 0 held, 1 violation (VIOLATION line + replay file), 2 inconclusive (a must-observe counter was zero, a shard died or the watchdog fired). KNOWN_FINDINGS.txt lists genuine defects that are pinned by the repository's own tests (reported as KNOWN-FINDING lines) and the 15 defects repaired by fix: commits.",
}
if not na:
    del man["not_applicable"]
json.dump(man, open(os.path.join(HERE, "MANIFEST.json"), "w"), indent=1)
print("checks:", [c["property_id"] for c in checks], "not yet:", [n["property_id"] for n in na])
