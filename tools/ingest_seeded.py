#!/usr/bin/env python3
"""Confirm a sub-agent's seeded defect in a scratch worktree and copy it to /verif/seeded/<id>/.

usage: tools/ingest_seeded.py /tmp/wt/out/C07 [...]   (each dir holds patchN.diff demoN.py metaN.json)
"""
import json, os, shutil, subprocess, sys, glob, re
VERIF = os.path.dirname(os.path.dirname(os.path.abspath(__file__)))
PY = "/venv/bin/python"

def sh(*a, cwd=None, timeout=300):
    r = subprocess.run(a, cwd=cwd, capture_output=True, text=True, timeout=timeout)
    return r.returncode, (r.stdout + r.stderr)

def main(dirs):
    global WAVE
    WAVE = ""
    if dirs and dirs[0].startswith("--wave="):
        WAVE = dirs[0].split("=", 1)[1]
        dirs = dirs[1:]
    head = sh("git", "-C", "/repo", "rev-parse", "HEAD")[1].strip()
    for d in dirs:
        pid = os.path.basename(d.rstrip("/"))
        for patch in sorted(glob.glob(os.path.join(d, "patch*.diff"))):
            n = re.search(r"patch(\d+)\.diff", patch).group(1)
            demo = os.path.join(d, f"demo{n}.py")
            metaf = os.path.join(d, f"meta{n}.json")
            name = f"{pid}-{WAVE}{n}"
            dest = os.path.join(VERIF, "seeded", name)
            if os.path.exists(dest):
                print(name, "already ingested"); continue
            if not os.path.exists(demo):
                print(name, "no demo, skipped"); continue
            wt = f"/tmp/gwseed-{name}"
            sh("git", "-C", "/repo", "worktree", "remove", "--force", wt)
            rc, out = sh("git", "-C", "/repo", "worktree", "add", "--detach", wt, "HEAD")
            try:
                c_clean, o_clean = sh(PY, demo, wt, timeout=180)
                rc, out = sh("git", "-C", wt, "apply", patch)
                if rc:
                    print(name, "PATCH DOES NOT APPLY", out[:200]); continue
                files = sh("git", "-C", wt, "diff", "--name-only")[1].split()
                rc_t, o_t = sh(PY, "-m", "pytest", "-q", "-p", "no:cacheprovider", cwd=wt, timeout=600)
                tests = o_t.strip().splitlines()[-1] if o_t.strip() else ""
                c_pat, o_pat = sh(PY, demo, wt, timeout=180)
                ok = c_clean == 0 and c_pat != 0 and "115 passed" in tests and all(f.startswith("goodwe/") for f in files)
                print(name, "clean", c_clean, "patched", c_pat, "|", tests, "|", "CONFIRMED" if ok else "REJECTED")
                if not ok:
                    print("   clean out:", o_clean[-300:]); print("   patched out:", o_pat[-300:]); continue
                os.makedirs(dest)
                shutil.copy(patch, os.path.join(dest, "patch.diff"))
                shutil.copy(demo, os.path.join(dest, "demo.py"))
                meta = json.load(open(metaf)) if os.path.exists(metaf) else {"property": pid}
                meta["property"] = pid
                meta["origin"] = "independent sub-agent given only the property text and its own worktree"
                meta["confirmed"] = {"base_commit": head, "tests_with_patch": tests, "demo_exit_clean": c_clean,
                                     "demo_exit_patched": c_pat, "demo_output_patched_tail": o_pat.strip()[-400:],
                                     "commands": [f"git apply patch.diff", "/venv/bin/python -m pytest -q -p no:cacheprovider",
                                                  "/venv/bin/python demo.py <worktree>"]}
                meta["files"] = files
                json.dump(meta, open(os.path.join(dest, "meta.json"), "w"), indent=1)
            finally:
                sh("git", "-C", "/repo", "worktree", "remove", "--force", wt)
                shutil.rmtree(wt, ignore_errors=True)

main(sys.argv[1:])
