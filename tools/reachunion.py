#!/usr/bin/env python3
"""Union of the lines of goodwe/*.py that the checks executed (side files written by the runner under .work/reach).
Usage: python3 tools/reachunion.py [--tier quick]   prints per file reached/executable and the unreached line ranges."""
import glob
import json
import os
import sys

VERIF = os.path.dirname(os.path.dirname(os.path.abspath(__file__)))
tier = sys.argv[sys.argv.index("--tier") + 1] if "--tier" in sys.argv else None
reached, ex = {}, {}
files = sorted(glob.glob(os.path.join(VERIF, ".work", "reach", "*.json")))
for fn in files:
    if tier and not fn.endswith(f"-{tier}.json"):
        continue
    d = json.load(open(fn))
    ex.update(d["executable"])
    for f, ls in d["reached"].items():
        reached.setdefault(f, set()).update(ls)


def ranges(ls):
    out, start, prev = [], None, None
    for l in ls:
        if start is None:
            start = prev = l
        elif l == prev + 1:
            prev = l
        else:
            out.append(f"{start}-{prev}" if prev != start else str(start))
            start = prev = l
    if start is not None:
        out.append(f"{start}-{prev}" if prev != start else str(start))
    return out


print(f"{len(files)} reach files")
for f in sorted(ex):
    hit = reached.get(f, set()) & set(ex[f])
    miss = [l for l in ex[f] if l not in hit]
    print(f"{f}: {len(hit)}/{len(ex[f])} executable lines reached; unreached: {' '.join(ranges(miss))}")
