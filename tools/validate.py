#!/usr/bin/env python3-vt
"""Validate MANIFEST.json and evidence/*.json against the schemas (run with python3-vt: needs jsonschema)."""
import json, glob, sys, os
import jsonschema
HERE = os.path.dirname(os.path.dirname(os.path.abspath(__file__)))
ok = True
jsonschema.validate(json.load(open(f'{HERE}/MANIFEST.json')), json.load(open('/root/.vp/MANIFEST.schema.json')))
print('MANIFEST ok')
es = json.load(open('/root/.vp/EVIDENCE.schema.json'))
for f in sorted(glob.glob(f'{HERE}/evidence/C*.json')):
    try:
        jsonschema.validate(json.load(open(f)), es); print(os.path.basename(f), 'ok')
    except Exception as e:
        ok = False; print(os.path.basename(f), 'INVALID', str(e)[:300])
sys.exit(0 if ok else 1)
