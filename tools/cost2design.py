#!/usr/bin/env python3
"""Rewrites the cost table of DESIGN.md section 6 from two logs of `./vcheck all --tier quick|thorough`.
Usage: python3 tools/cost2design.py QUICK_LOG THOROUGH_LOG"""
import os
import re
import sys

VERIF = os.path.dirname(os.path.dirname(os.path.abspath(__file__)))
pat = re.compile(r"\[(C\d\d)/(quick|thorough)\] seed=\d+ shards=(\d+) evaluations=(\d+) distinct=(\d+) wall=([\d.]+)s")
data = {}
for fn in sys.argv[1:3]:
    for line in open(fn):
        m = pat.search(line)
        if m:
            data[(m.group(1), m.group(2))] = (int(m.group(3)), int(m.group(4)), int(m.group(5)), float(m.group(6)))
rows = ["| check | quick: shards / evaluations / distinct / wall | thorough: shards / evaluations / distinct / wall |", "|---|---|---|"]
tq = tt = 0.0
for i in range(1, 21):
    pid = f"C{i:02d}"
    q, t = data.get((pid, "quick")), data.get((pid, "thorough"))
    f = lambda x: "-" if x is None else f"{x[0]} / {x[1]:,} / {x[2]:,} / {x[3]:.0f} s"
    rows.append(f"| {pid} | {f(q)} | {f(t)} |")
    tq += q[3] if q else 0
    tt += t[3] if t else 0
txt = "\n".join(rows) + f"\n\nSum of the walls: quick {tq / 60:.1f} min, thorough {tt / 60:.1f} min (16 cores; shards of one check run in parallel, checks one after the other)."
p = os.path.join(VERIF, "DESIGN.md")
s = open(p).read()
a, b = "<!-- COST-BEGIN -->", "<!-- COST-END -->"
if a not in s:
    print("markers missing")
    sys.exit(1)
s = s[:s.index(a) + len(a)] + "\n" + txt + "\n" + s[s.index(b):]
open(p, "w").write(s)
print("cost table updated")
