#!/usr/bin/env python3
"""Copies every check's RULE / ASSUMPTIONS / MUST (the workload and oracle as built) into DESIGN.md between the RULES markers."""
import importlib
import os
import sys

VERIF = os.path.dirname(os.path.dirname(os.path.abspath(__file__)))
sys.path.insert(0, VERIF)
from gwverif import env      # noqa: E402
env.ensure_deps()
rows = []
for i in range(1, 21):
    mod = importlib.import_module(f"gwverif.checks.c{i:02d}")
    rows.append(f"**{mod.PROPERTY}** ({mod.LEVEL}). {mod.RULE}\n\n"
                f"  *Assumptions:* " + "; ".join(mod.ASSUMPTIONS) + "\n\n"
                f"  *Must-observe counters (zero ⇒ inconclusive):* " + ", ".join(f"`{m}`" for m in getattr(mod, "MUST", [])) + "\n")
text = "\n".join(rows)
p = os.path.join(VERIF, "DESIGN.md")
s = open(p).read()
a, b = "<!-- RULES-BEGIN -->", "<!-- RULES-END -->"
if a not in s:
    print("markers missing")
    sys.exit(1)
s = s[:s.index(a) + len(a)] + "\n" + text + "\n" + s[s.index(b):]
open(p, "w").write(s)
print("DESIGN.md rules section updated:", len(rows), "checks")
