#!/usr/bin/env python3
"""Print the kill matrix (evidence/selftest.json) as a markdown table for DESIGN.md section 8."""
import json, os, glob
HERE = os.path.dirname(os.path.dirname(os.path.abspath(__file__)))
d = json.load(open(os.path.join(HERE, "evidence", "selftest.json")))
metas = {os.path.basename(os.path.dirname(p)): json.load(open(p)) for p in glob.glob(os.path.join(HERE, "seeded", "*", "meta.json"))}
rf = {("revert-" + r["commit"][:7]): r for r in json.load(open(os.path.join(HERE, "selftest", "reverted_fixes.json")))}
import io, sys
_out = io.StringIO()
_real = sys.stdout
sys.stdout = _out
print("| change | property | what it needs to manifest | caught by (violation keys) |")
print("|---|---|---|---|")
for r in d["results"]:
    if metas.get(r["mutant"], {}).get("neutralised_by"):
        print(f"| {r['mutant']} | {r.get('property')} | made harmless by a later fix: {metas[r['mutant']]['neutralised_by'][:160]} | (not run any more) |"); continue
    if not r.get("applies"):
        print(f"| {r['mutant']} | | patch does not apply | |"); continue
    m = metas.get(r["mutant"], {})
    need = (m.get("needs_to_manifest") or rf.get(r["mutant"], {}).get("what", "")).replace("\n", " ").replace("|", "/")
    need = need[:150] + ("…" if len(need) > 150 else "")
    by = "; ".join(f"**{pid}** ({', '.join(k.split('/', 1)[1] for k in c['keys'][:2])})" if c["caught"] else f"{pid}: missed (exit {c['exit']})"
                   for pid, c in r["checks"].items())
    print(f"| {r['mutant']} | {r.get('property')} | {need} | {by} |")

sys.stdout = _real
txt = _out.getvalue()
if "--update-design" in sys.argv:
    p = os.path.join(HERE, "DESIGN.md")
    s = open(p).read()
    a, b = s.index("<!-- MATRIX-BEGIN -->"), s.index("<!-- MATRIX-END -->")
    live = [r for r in d["results"] if r.get("applies") and not metas.get(r["mutant"], {}).get("neutralised_by")]
    caught = sum(1 for r in live if any(c["caught"] for c in r["checks"].values()))
    total = len(live)
    head = f"{caught} of {total} changes are caught by at least one check ({len(d['results'])} listed; kinds: seeded = independent sub-agent, own = hand-written, reverted-fix = a fix: commit reverted).\n\n"
    s = s[:a] + "<!-- MATRIX-BEGIN -->\n" + head + txt + s[b:]
    open(p, "w").write(s)
    print(f"DESIGN.md updated: {caught}/{total}")
else:
    print(txt)
