#!/usr/bin/env python3
"""Prepare the next wave of independent seeded-change helpers: prompts + scratch worktrees.

usage: tools/mkwave.py PREV NEXT      e.g. tools/mkwave.py 10 11
Takes /tmp/wtPREV/props/CXX.prompt, re-targets it to /tmp/wtNEXT and appends the mechanisms of wave PREV (from seeded/*/meta.json)
to the "do not repeat" list; creates the detached worktrees /tmp/wtNEXT/CXX of /repo HEAD.
"""
import glob, json, os, re, subprocess, sys
VERIF = os.path.dirname(os.path.dirname(os.path.abspath(__file__)))
prev, nxt = sys.argv[1], sys.argv[2]
os.makedirs(f"/tmp/wt{nxt}/props", exist_ok=True)
os.makedirs(f"/tmp/wt{nxt}/out", exist_ok=True)
for i in range(1, 21):
    pid = f"C{i:02d}"
    text = open(f"/tmp/wt{prev}/props/{pid}.prompt").read().replace(f"/tmp/wt{prev}", f"/tmp/wt{nxt}")
    lines = text.split("\n")
    last = max(k for k, l in enumerate(lines) if l.startswith(" - "))
    new = []
    for m in sorted(glob.glob(os.path.join(VERIF, "seeded", f"{pid}-w{prev}-*", "meta.json"))):
        meta = json.load(open(m))
        summ = re.sub(r"\s+", " ", str(meta.get("summary", "")))[:150]
        if summ:
            new.append(" - " + summ)
    lines[last + 1:last + 1] = new
    open(f"/tmp/wt{nxt}/props/{pid}.prompt", "w").write("\n".join(lines))
    wt = f"/tmp/wt{nxt}/{pid}"
    if not os.path.exists(wt):
        subprocess.run(["git", "-C", "/repo", "worktree", "add", "--detach", wt, "HEAD"], capture_output=True)
print("prompts in", f"/tmp/wt{nxt}/props")
